/-
  C14 — state is fresh: attributes reflect the newest live message, stale data ages out.

  Histories, clock values, lifespans, zones and codes are arbitrary (unbounded); the constants
  (HAS_EXPIRED, the 3 s grace) are the ones the translator reads out of /repo.
-/
import Ramses.Model.MsgDb
namespace Ramses.C14
open Ramses.Db

/-! ### the constants the statement of the property fixes -/

theorem repo_expiry_constants :
    Gen.hasExpiredNum = 2 ∧ Gen.hasExpiredDen = 1 ∧ Gen.expiryGraceUs = 3000000 := by decide

/-! ### expiry arithmetic -/

/-- never expired before its lifetime has passed -/
theorem not_before (now : Int) (m : Msg) (l : Nat) (hl : m.life = .dur l) (hpos : 0 < l)
    (h : now - m.dtm < (l : Int)) : expiredAt now m = false := by
  unfold expiredAt grace
  rw [hl]
  simp only
  have h0 : ¬ (l = 0) := by omega
  rw [if_neg h0]
  have := repo_expiry_constants
  simp only [this.1, this.2.1, this.2.2, decide_eq_false_iff_not]
  omega

/-- always expired once twice the lifetime plus the grace has passed -/
theorem always_after (now : Int) (m : Msg) (l : Nat) (hl : m.life = .dur l)
    (h : 2 * (l : Int) + 3000000 ≤ now - m.dtm) : expiredAt now m = true := by
  unfold expiredAt grace
  rw [hl]
  simp only
  split
  · rfl
  · have := repo_expiry_constants
    simp only [this.1, this.2.1, this.2.2, decide_eq_true_eq]
    omega

/-- a message that cannot expire never does -/
theorem cant_never (now : Int) (m : Msg) (hl : m.life = .cant) : expiredAt now m = false := by
  unfold expiredAt; rw [hl]

/-- expiry never un-happens as the clock advances -/
theorem expiry_monotone (now now' : Int) (m : Msg) (h : now ≤ now') (he : expiredAt now m = true) :
    expiredAt now' m = true := by
  unfold expiredAt at *
  cases hl : m.life with
  | cant => rw [hl] at he; simp at he
  | dur l =>
    rw [hl] at he
    simp only at he ⊢
    split
    · rfl
    · rename_i h0
      rw [if_neg h0] at he
      have := repo_expiry_constants
      simp only [this.1, this.2.1, decide_eq_true_eq] at he ⊢
      omega

theorem stuck_reads_true : ∀ (ts : List Int) (s : Slot), s.stuck = true → ∀ r ∈ (s.reads ts).1, r = true := by
  intro ts
  induction ts with
  | nil => intro s _ r hr; simp [Slot.reads] at hr
  | cons t ts ih =>
    intro s hs r hr
    simp only [Slot.reads, Slot.expired, hs, if_true, List.mem_cons] at hr
    rcases hr with hr | hr
    · exact hr
    · exact ih s hs r hr

/-- **expiry is sticky for the object, whatever the clock does** (even if it steps backwards):
    in any sequence of `_expired` reads, once one returns True every later one does -/
theorem reads_sticky : ∀ (ts : List Int) (s : Slot),
    ((s.reads ts).1).Pairwise (fun a b => a = true → b = true) := by
  intro ts
  induction ts with
  | nil => intro s; simp [Slot.reads]
  | cons t ts ih =>
    intro s
    simp only [Slot.reads, List.pairwise_cons]
    refine ⟨?_, ih _⟩
    intro b hb ha
    apply stuck_reads_true ts _ _ b hb
    unfold Slot.expired at ha ⊢
    split
    · assumption
    · rename_i hst
      simp only [hst] at ha
      simp only at ha ⊢
      exact ha

/-! ### the store: the newest relevant message wins, whatever is interleaved -/

theorem lookup_put_same (db : Db) (m : Msg) : lookup (put db m) m.code = some ⟨m, false⟩ := by
  simp [lookup, put, List.find?]

theorem lookup_filter_ne (db : Db) (c c' : String) (h : c ≠ c') :
    lookup (db.filter (fun e => e.1 != c')) c = lookup db c := by
  unfold lookup
  congr 1
  induction db with
  | nil => rfl
  | cons e es ih =>
    by_cases h1 : e.1 = c'
    · have h2 : ¬ (e.1 = c) := by intro h3; exact h (h3.symm.trans h1)
      have hf : (e.1 != c') = false := by simp [h1]
      simp only [List.filter_cons, hf, Bool.false_eq_true, if_false, List.find?_cons, h2, decide_false]
      exact ih
    · have hf : (e.1 != c') = true := by simpa using h1
      simp only [List.filter_cons, hf, if_true, List.find?_cons]
      split
      · rfl
      · exact ih

theorem lookup_put_other (db : Db) (m : Msg) (c : String) (h : c ≠ m.code) :
    lookup (put db m) c = lookup db c := by
  have h1 : ¬ (m.code = c) := fun h2 => h h2.symm
  have : lookup (put db m) c = lookup (db.filter (fun e => e.1 != m.code)) c := by
    simp [lookup, put, List.find?_cons, h1]
  rw [this, lookup_filter_ne db c m.code h]

/-- which messages matter for `(zone, code)` -/
def matters (ctl z code : String) (m : Msg) : Bool := relevant ctl z m && (m.code == code)

/-- **Freshness.**  After *any* history of messages, the slot a zone consults for a code holds
    exactly the last message of the history that was relevant for that zone and code (from its
    controller, I/RP, carrying the zone's index) — or what was there before, if there was none. -/
theorem fresh (ctl z code : String) : ∀ (hs : List Msg) (db : Db),
    lookup (hs.foldl (zoneHandle ctl z) db) code =
      match (hs.filter (matters ctl z code)).getLast? with
      | some m => some ⟨m, false⟩
      | none => lookup db code := by
  intro hs
  induction hs with
  | nil => intro db; simp
  | cons m rest ih =>
    intro db
    simp only [List.foldl_cons]
    rw [ih]
    simp only [List.filter_cons]
    by_cases hm : matters ctl z code m = true
    · simp only [hm, if_true]
      have hrel : relevant ctl z m = true := by
        unfold matters at hm; simp only [Bool.and_eq_true] at hm; exact hm.1
      have hcode : m.code = code := by
        unfold matters at hm; simp only [Bool.and_eq_true, beq_iff_eq] at hm; exact hm.2
      cases hr : (rest.filter (matters ctl z code)).getLast? with
      | some m' => simp [List.getLast?_cons, hr]
      | none =>
        have : rest.filter (matters ctl z code) = [] := by simpa using hr
        simp only [this, List.getLast?_singleton]
        unfold zoneHandle
        rw [if_pos hrel, ← hcode, lookup_put_same]
    · have hm' : matters ctl z code m = false := by simpa using hm
      simp only [hm', Bool.false_eq_true, if_false]
      cases hr : (rest.filter (matters ctl z code)).getLast? with
      | some m' => rfl
      | none =>
        simp only
        unfold zoneHandle
        by_cases hrel : relevant ctl z m = true
        · rw [if_pos hrel]
          have hne : code ≠ m.code := by
            intro h; unfold matters at hm'; simp [hrel, h] at hm'
          exact lookup_put_other db m code hne
        · rw [if_neg hrel]

/-- **Interleaving independence.**  Two histories that agree on the messages that matter for
    `(zone, code)` leave the same message in charge of that attribute — traffic for other zones,
    other codes, other devices and other controllers is irrelevant, wherever it is interleaved. -/
theorem interleaving_irrelevant (ctl z code : String) (hs hs' : List Msg) (db : Db)
    (h : hs.filter (matters ctl z code) = hs'.filter (matters ctl z code)) :
    lookup (hs.foldl (zoneHandle ctl z) db) code = lookup (hs'.foldl (zoneHandle ctl z) db) code := by
  rw [fresh, fresh, h]

/-! ### reads -/

/-- while the message in charge is live, a read reports exactly the element it carries for the zone -/
theorem read_live (now : Int) (db : Db) (codes : List String) (z : String) (s : Slot)
    (hp : pick db codes = some s) (hl : (s.expired now).1 = false) :
    (readAttr now db codes z).1 = elemOf z s.m ∧ (readAttr now db codes z).1 = readSpec now db codes z := by
  unfold readAttr readSpec
  rw [hp]
  simp only
  cases he : s.expired now with
  | mk ex s' =>
    have : ex = false := by rw [he] at hl; exact hl
    subst this
    simp

theorem pick_single (db : Db) (c : String) : pick db [c] = lookup db c := by
  unfold pick
  cases lookup db c <;> simp [pick]

/-- no two slots for one code -/
def WF (db : Db) : Prop := (db.map (·.1)).Nodup

theorem lookup_delete (db : Db) (s : Slot) (c : String) (hwf : WF db) (hl : lookup db c = some s)
    (hc : s.m.code = c) : lookup (delete db s.m) c = none := by
  unfold lookup delete at *
  induction db with
  | nil => simp
  | cons e es ih =>
    unfold WF at hwf
    simp only [List.map_cons, List.nodup_cons] at hwf
    simp only [List.find?_cons] at hl
    by_cases h1 : e.1 = c
    · simp only [h1, decide_true, Option.map_some, Option.some.injEq] at hl
      -- e is the slot: it is deleted, and no other entry has code c
      have he : (!(decide (e.1 = s.m.code) && decide (e.2.m.seq = s.m.seq))) = false := by
        simp [h1, hc, hl]
      simp only [List.filter_cons, he, Bool.false_eq_true, if_false]
      have hnone : ∀ x ∈ es, ¬ (x.1 = c) := by
        intro x hx hxc
        apply hwf.1
        rw [h1, ← hxc]
        exact List.mem_map_of_mem hx
      have : List.find? (fun e => decide (e.1 = c)) (List.filter (fun e => !(decide (e.1 = s.m.code) && decide (e.2.m.seq = s.m.seq))) es) = none := by
        rw [List.find?_eq_none]
        intro x hx
        have hx' := (List.mem_filter.mp hx).1
        simpa using hnone x hx'
      rw [this]; rfl
    · simp only [h1, decide_false, Bool.false_eq_true] at hl
      have hkeep : (!(decide (e.1 = s.m.code) && decide (e.2.m.seq = s.m.seq))) = true := by
        have : ¬ (e.1 = s.m.code) := by rw [hc]; exact h1
        simp [this]
      simp only [List.filter_cons, hkeep, if_true, List.find?_cons, h1, decide_false]
      exact ih hwf.2 hl

/-- **Once the expiry has been noticed the attribute reads as unknown** (until a new message
    arrives): the read after the one that noticed it — at any clock value — returns nothing.
    `_partial`: the property asks this of the *noticing* readAttr too; the code returns the stale
    value once more (see `stale_first_read_witness`). -/
theorem expired_then_unknown_partial (now now' : Int) (db : Db) (c z : String) (s : Slot) (hwf : WF db)
    (hl : lookup db c = some s) (hc : s.m.code = c) (he : (s.expired now).1 = true) :
    (readAttr now' (readAttr now db [c] z).2 [c] z).1 = none := by
  have h1 : (readAttr now db [c] z).2 = delete db s.m := by
    unfold readAttr
    rw [pick_single, hl]
    simp only
    cases hx : s.expired now with
    | mk ex s' =>
      have : ex = true := by rw [hx] at he; exact he
      subst this; simp
  rw [h1]
  unfold readAttr
  rw [pick_single, lookup_delete db s c hwf hl hc]


/-! ### reachable stores are well-formed; two-code attributes take the newer message -/

theorem wf_nil : WF ([] : Db) := by simp [WF]

theorem wf_put (db : Db) (m : Msg) (h : WF db) : WF (put db m) := by
  unfold WF put at *
  simp only [List.map_cons, List.nodup_cons]
  constructor
  · intro hmem
    obtain ⟨e, he, hc⟩ := List.mem_map.mp hmem
    have := (List.mem_filter.mp he).2
    simp [hc] at this
  · exact List.Nodup.sublist (List.Sublist.map _ List.filter_sublist) h

theorem wf_history (ctl z : String) : ∀ (hs : List Msg) (db : Db), WF db → WF (hs.foldl (zoneHandle ctl z) db) := by
  intro hs
  induction hs with
  | nil => intro db h; exact h
  | cons m rest ih =>
    intro db h
    simp only [List.foldl_cons]
    apply ih
    unfold zoneHandle
    split
    · exact wf_put db m h
    · exact h

/-- an attribute fed by two codes (setpoint: 2309 and 2349) is taken from whichever of the two
    messages in charge is newer -/
theorem pick_two (db : Db) (a b : String) (sa sb : Slot) (ha : lookup db a = some sa) (hb : lookup db b = some sb) :
    pick db [a, b] = some (if sb.m.dtm > sa.m.dtm then sb else sa) := by
  simp only [pick, ha, hb]
  split <;> rfl


/-! ### the whole system: a read in one zone never takes a live message away from another -/

theorem delete_keeps_others (db : Db) (m : Msg) (c : String) (s : Slot) (h : lookup db c = some s)
    (hne : s.m.seq ≠ m.seq) (hwf : WF db) : lookup (delete db m) c = some s := by
  unfold lookup delete at *
  induction db with
  | nil => simp at h
  | cons e es ih =>
    unfold WF at hwf
    simp only [List.map_cons, List.nodup_cons] at hwf
    simp only [List.find?_cons] at h
    by_cases h1 : e.1 = c
    · simp only [h1, decide_true, Option.map_some, Option.some.injEq] at h
      have hk : (!(decide (e.1 = m.code) && decide (e.2.m.seq = m.seq))) = true := by
        have : ¬ (e.2.m.seq = m.seq) := by rw [h]; exact hne
        simp [this]
      rw [List.filter_cons, if_pos hk]
      simp only [List.find?_cons, h1, decide_true, Option.map_some, h]
    · simp only [h1, decide_false, Bool.false_eq_true] at h
      simp only [List.filter_cons]
      split
      · simp only [List.find?_cons, h1, decide_false]
        exact ih h hwf.2
      · exact ih h hwf.2

/-- the full statement fails on the unchanged code: the read that notices the expiry still
    reports the stale value (a zone temperature two hours old with a six-minute lifetime) -/
theorem stale_first_read_witness :
    let m : Msg := ⟨1, "01:145038", "01:145038", " I", "30C9", 0, .dur 360000000, [("01", 2106)]⟩
    let db : Db := zoneHandle "01:145038" "01" [] m
    let now : Int := 7200000000
    readSpec now db ["30C9"] "01" = none ∧ (readAttr now db ["30C9"] "01").1 = some 2106 ∧
      (readAttr now (readAttr now db ["30C9"] "01").2 ["30C9"] "01").1 = none := by
  decide +kernel

/-- second way the full statement fails on the unchanged code: a two-code attribute (setpoint:
    2309 + 2349) falls back to the *older* message of the other code once the newest has expired
    and been dropped, instead of reading as unknown -/
theorem fallback_older_witness :
    let ctl := "01:145038"
    let a : Msg := ⟨1, ctl, "18:006402", "RP", "2349", 0, .dur 3600000000, [("01", 2000)]⟩
    let b : Msg := ⟨2, ctl, ctl, " I", "2309", 100000000, .dur 360000000, [("00", 1800), ("01", 2100)]⟩
    let db : Db := [a, b].foldl (zoneHandle ctl "01") []
    let now : Int := 900000000
    readSpec now db ["2309", "2349"] "01" = none ∧
      (readAttr now (readAttr now db ["2309", "2349"] "01").2 ["2309", "2349"] "01").1 = some 2000 := by
  decide +kernel

/-- non-vacuity of `fresh`: three interleaved messages, the zone-01 temperature is the last
    30C9 from the controller that carries zone 01 -/
example :
    let ctl := "01:145038"
    let a : Msg := ⟨1, ctl, ctl, " I", "30C9", 10, .dur 360000000, [("00", 2000), ("01", 2100)]⟩
    let b : Msg := ⟨2, ctl, "18:006402", "RP", "30C9", 20, .dur 360000000, [("00", 1990)]⟩
    let c : Msg := ⟨3, "04:000001", ctl, " I", "30C9", 30, .dur 360000000, [("01", 1500)]⟩
    let d : Msg := ⟨4, ctl, ctl, " I", "2309", 40, .dur 360000000, [("01", 1800)]⟩
    (readAttr 50 ([a, b, c, d].foldl (zoneHandle ctl "01") []) ["30C9"] "01").1 = some 2100 := by
  decide +kernel

/-- **a one-zone announcement folded into the array is the zone's value**: when a message's elements
    are an array followed by what was received after it (the gateway merges a second packet of the
    same code that arrives within 3 s into the first), the element read for a zone is the *later*
    one that names it -/
theorem elemOf_later_wins (z : String) (m : Msg) (a b : List (String × Int)) (hm : m.elems = a ++ b)
    (e : String × Int) (hb : b.reverse.find? (fun e => e.1 = z) = some e) : elemOf z m = some e.2 := by
  unfold elemOf
  rw [hm, List.reverse_append, List.find?_append, hb]
  rfl

/-- ... and the array's own element only when the later part does not name the zone -/
theorem elemOf_earlier_when_absent (z : String) (m : Msg) (a b : List (String × Int)) (hm : m.elems = a ++ b)
    (hb : b.reverse.find? (fun e => e.1 = z) = none) :
    elemOf z m = (a.reverse.find? (fun e => e.1 = z)).map (·.2) := by
  unfold elemOf
  rw [hm, List.reverse_append, List.find?_append, hb]
  rfl

end Ramses.C14
