import Ramses.Model.Match
namespace Ramses.C09
open Ramses
end Ramses.C09
