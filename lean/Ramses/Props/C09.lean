/-
  C09 — the send machinery never wedges: it returns to idle and keeps serving.
  Model: Model/Qos.lean (macro-step abstraction, see C08); `Inv` is the model's counterpart of the
  authors' own `is_sending` consistency predicate.
-/
import Ramses.Proofs.QosInv
namespace Ramses.C09
open Ramses Ramses.Qos

/-- **the internal consistency checks never trip**: after any finite episode the machine
    satisfies the invariant that the authors' `is_sending` asserts (nothing in flight ⇔ idle or
    inactive; in flight ⇒ a command with 1 ≤ tx_count ≤ tx_limit that is not also queued) -/
theorem consistent_always (fails : List (Nat × Nat)) (evs : List (Nat × Ev)) (hf : FreshEvs (init fails) evs) :
    Inv (run (init fails) evs) := run_inv _ evs (init_inv fails) hf

/-- **back to idle**: with nothing in flight the machine is idle (or inactive if disconnected) -/
theorem rests_idle (fails : List (Nat × Nat)) (evs : List (Nat × Ev)) (hf : FreshEvs (init fails) evs)
    (h : (run (init fails) evs).cur = none) :
    (run (init fails) evs).st = .idle ∨ (run (init fails) evs).st = .inactive :=
  (consistent_always fails evs hf).idle_ok h

/-- **a fresh command to a responsive device succeeds**: from any idle state with an empty queue,
    a command whose write does not fail and whose echo arrives is answered with that echo -/
theorem probe_succeeds (s : S) (c : QCmd) (h1 : s.st = .idle) (h2 : s.que = []) (h3 : s.dead = [])
    (hw : writeFails s c.id = false) (hn : c.needReply = false) :
    (c.id, Out.echo, s.now) ∈ (apply (apply s (.call c)) (.echo c.id)).outcomes := by
  have hlen : ¬ (s.que.length ≥ maxBuffer) := by rw [h2]; decide
  have hi : ¬ (s.st = .inactive) := by rw [h1]; decide
  have e1 : apply s (.call c) =
      startTimer (logWrite { s with st := .wantEcho, cur := some c, txCount := 1, txLimit := limOf c, timerAt := none, que := [], called := s.called ++ [c] } c.id) echoTimeout := by
    show (if s.st = .inactive then answer { s with called := s.called ++ [c] } c.id .failed
      else if s.que.length ≥ maxBuffer then answer { s with called := s.called ++ [c] } c.id .failed
      else (if ({ s with que := s.que ++ [c], called := s.called ++ [c] } : S).st = .idle
            then goIdle (fuelOf { s with que := s.que ++ [c], called := s.called ++ [c] }) { s with que := s.que ++ [c], called := s.called ++ [c] }
            else { s with que := s.que ++ [c], called := s.called ++ [c] })) = _
    rw [if_neg hi, if_neg hlen]
    simp only [h1, if_true, h2, List.nil_append, fuelOf, List.length_cons, List.length_nil]
    unfold goIdle
    simp only [best, h3]
    have hw' : ∀ (x : S), x.writes = s.writes → x.failWrites = s.failWrites → writeFails x c.id = false := by
      intro x hx1 hx2
      unfold writeFails countWrites at hw ⊢
      rw [hx1, hx2]; exact hw
    simp [hw', logWrite, startTimer]
  rw [e1]
  simp only [apply, startTimer, logWrite, hn]
  simp [goIdle, answer, fuelOf, best]

/-- non-vacuity + the once-fatal schedule: disconnect between enqueue and start, reconnect, probe -/
example :
    let s := run (init []) [(0, .call ⟨0, 0, 0, 3, false, true, 1000000⟩), (20000, .connLost), (30000, .call ⟨1, 0, 1, 3, false, true, 1030000⟩),
                            (500000, .connMade), (600000, .call ⟨2, 0, 2, 3, false, true, 20600000⟩), (620000, .echo 2)]
    s.st = .idle ∧ s.cur = none ∧ s.outcomes = [(0, .failed, 20000), (1, .failed, 30000), (2, .echo, 620000)] := by
  decide +kernel

end Ramses.C09
