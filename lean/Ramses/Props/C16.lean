/-
  C16 — saved state restores: snapshot -> fresh gateway -> snapshot is a fixpoint.

  `route` (which slots of which entities a packet is stored in) is an arbitrary function of the
  packet: the theorems hold for every topology, every history length and every packet mix.  That
  the real routing of a gateway rebuilt from the reported schema is such a function of the packet
  alone is what the per-run comparison on real gateways establishes (DESIGN.md §3 C16).
-/
import Ramses.Model.Snapshot
namespace Ramses.C16
open Ramses.Snap

variable {K : Type} [DecidableEq K]

/-! ### what a snapshot can contain -/

/-- a snapshot never contains a request -/
theorem wanted_no_rq (inc : Bool) (p : P) (h : wanted inc p = true) : p.verb ≠ "RQ" := by
  intro hv
  unfold wanted at h
  simp [hv] at h

/-- ... nor a write other than a schedule fragment -/
theorem wanted_w_only_0404 (inc : Bool) (p : P) (h : wanted inc p = true) (hv : p.verb = " W") :
    p.code = "0404" := by
  unfold wanted at h
  by_cases h1 : p.code = "313F"
  · simp [h1, hv] at h
  · by_cases h2 : p.code = "0404"
    · exact h2
    · simp [h1, h2, hv] at h

/-- ... nor, unless asked for, an expired packet — except the controller's date/time (313F), which
    the code keeps on purpose ("usu. expired, useful 4 back-back restarts": a recorded finding) -/
theorem wanted_not_expired_partial (p : P) (h : wanted false p = true) (hc : p.code ≠ "313F") :
    p.expired = false := by
  unfold wanted at h
  simp only [hc, if_false] at h
  cases he : p.expired with
  | false => rfl
  | true => simp [he] at h

theorem expired_313f_kept_witness :
    wanted false ⟨0, " I", "313F", 9, true⟩ = true := by decide

/-! ### list lemmas -/

theorem getLast?_filter_of_last (l : List P) (q : P → Bool) (p : P) (h : l.getLast? = some p) (hq : q p = true) :
    (l.filter q).getLast? = some p := by
  obtain ⟨ys, rfl⟩ := List.getLast?_eq_some_iff.mp h
  simp [List.filter_append, hq]

theorem final_filter (route : P → List K) (h : List P) (q : P → Bool) (k : K) (p : P)
    (hf : final route h k = some p) (hq : q p = true) : final route (h.filter q) k = some p := by
  unfold final at *
  rw [List.filter_filter]
  have : (h.filter (fun a => decide (k ∈ route a) && q a)) = (h.filter (fun a => decide (k ∈ route a))).filter q := by
    rw [List.filter_filter]
    congr 1; funext a; exact Bool.and_comm _ _
  rw [this]
  exact getLast?_filter_of_last _ q p hf hq

theorem heldIn_iff (route : P → List K) (h : List P) (p : P) :
    heldIn route h p = true ↔ ∃ k, k ∈ route p ∧ final route h k = some p := by
  unfold heldIn
  rw [List.any_eq_true]
  constructor
  · rintro ⟨k, hk, hf⟩; exact ⟨k, hk, by simpa using hf⟩
  · rintro ⟨k, hk, hf⟩; exact ⟨k, hk, by simpa using hf⟩

theorem heldIn_filter (route : P → List K) (h : List P) (q : P → Bool) (p : P)
    (hh : heldIn route h p = true) (hq : q p = true) : heldIn route (h.filter q) p = true := by
  obtain ⟨k, hk, hf⟩ := (heldIn_iff route h p).mp hh
  exact (heldIn_iff route _ p).mpr ⟨k, hk, final_filter route h q k p hf hq⟩

/-! ### the fixpoint -/

/-- **snapshot -> fresh gateway -> snapshot is a fixpoint.**  Replaying exactly the saved packets, in
    timestamp order, through the same store logic leaves exactly the saved packets to be saved again:
    nothing is lost (each saved packet is still the last one in the slot that held it) and nothing
    appears (only saved packets were replayed). -/
theorem snapshot_fixpoint (route : P → List K) (inc : Bool) (h : List P) :
    snapOf route inc (snapOf route inc h) = snapOf route inc h := by
  unfold snapOf
  rw [List.filter_eq_self]
  intro p hp
  have hc := (List.mem_filter.mp hp).2
  simp only [Bool.and_eq_true] at hc ⊢
  exact ⟨hc.1, heldIn_filter route h _ p hc.2 (by simp [hc.1, hc.2])⟩

theorem final_append (route : P → List K) (a b : List P) (k : K) :
    final route (a ++ b) k = (final route b k).or (final route a k) := by
  unfold final
  rw [List.filter_append, List.getLast?_append]

/-- **restoring a snapshot into the gateway it came from (or restoring it twice) changes nothing
    that a snapshot can see**: the packets saved afterwards are exactly the packets saved before -/
theorem restore_into_self (route : P → List K) (inc : Bool) (h : List P) (p : P) :
    p ∈ snapOf route inc (h ++ snapOf route inc h) ↔ p ∈ snapOf route inc h := by
  have hS : snapOf route inc h = h.filter (fun p => wanted inc p && heldIn route h p) := rfl
  constructor
  · intro hp
    obtain ⟨hmem, hc⟩ := List.mem_filter.mp hp
    simp only [Bool.and_eq_true] at hc
    obtain ⟨hw, hh⟩ := hc
    rcases List.mem_append.mp hmem with hm | hm
    · obtain ⟨k, hk, hf⟩ := (heldIn_iff route _ p).mp hh
      rw [final_append] at hf
      cases hb : final route (snapOf route inc h) k with
      | some x =>
        rw [hb] at hf
        have hf' : x = p := by simpa [Option.or] using hf
        subst hf'
        unfold final at hb
        have := List.mem_of_getLast? hb
        exact (List.mem_filter.mp this).1
      | none =>
        rw [hb] at hf
        have hf : final route h k = some p := by simpa [Option.or] using hf
        rw [hS]
        refine List.mem_filter.mpr ⟨hm, ?_⟩
        simp only [Bool.and_eq_true]
        exact ⟨hw, (heldIn_iff route h p).mpr ⟨k, hk, hf⟩⟩
    · exact hm
  · intro hp
    have hp' := hp
    rw [hS] at hp
    obtain ⟨hmem, hc⟩ := List.mem_filter.mp hp
    simp only [Bool.and_eq_true] at hc
    obtain ⟨hw, hh⟩ := hc
    refine List.mem_filter.mpr ⟨List.mem_append.mpr (Or.inl hmem), ?_⟩
    simp only [Bool.and_eq_true]
    refine ⟨hw, ?_⟩
    obtain ⟨k, hk, hf⟩ := (heldIn_iff route h p).mp hh
    refine (heldIn_iff route _ p).mpr ⟨k, hk, ?_⟩
    rw [final_append]
    have := final_filter route h (fun p => wanted inc p && heldIn route h p) k p hf
      (by simp only [Bool.and_eq_true]; exact ⟨hw, hh⟩)
    rw [hS, this]
    rfl

/-! ### the slot store really is `final` -/

theorem slot_assign (s : Store K) (k k' : K) (p : P) :
    slot (assign s k p) k' = if k' = k then some p else slot s k' := by
  unfold slot assign
  by_cases h : k' = k
  · subst h; simp
  · have h' : ¬ (k = k') := fun x => h x.symm
    simp only [List.find?_cons, h', decide_false, h, if_false]
    congr 1
    induction s with
    | nil => rfl
    | cons e es ih =>
      simp only [List.filter_cons]
      by_cases h1 : e.1 = k
      · have h2 : ¬ (e.1 = k') := by rw [h1]; exact h'
        have hf : (e.1 != k) = false := by simp [h1]
        simp only [hf, Bool.false_eq_true, if_false, List.find?_cons, h2, decide_false]
        exact ih
      · have : (e.1 != k) = true := by simpa using h1
        simp only [this, if_true, List.find?_cons]
        split
        · rfl
        · exact ih

theorem slot_handle (route : P → List K) (p : P) (k : K) : ∀ (ks : List K) (s : Store K),
    slot (ks.foldl (fun s k => assign s k p) s) k = if k ∈ ks then some p else slot s k := by
  intro ks
  induction ks with
  | nil => intro s; simp
  | cons k0 ks ih =>
    intro s
    simp only [List.foldl_cons]
    rw [ih, slot_assign]
    by_cases h1 : k ∈ ks
    · simp [h1]
    · by_cases h2 : k = k0
      · simp [h2]
      · simp [h1, h2]

/-- after any history the slot `k` of the store holds the last packet routed to it -/
theorem slot_is_final (route : P → List K) (k : K) : ∀ (h : List P) (s : Store K),
    slot (h.foldl (handle route) s) k = (final route h k).or (slot s k) := by
  intro h
  induction h with
  | nil => intro s; simp [final]
  | cons p rest ih =>
    intro s
    simp only [List.foldl_cons]
    rw [ih]
    unfold handle
    rw [slot_handle route p k]
    unfold final
    simp only [List.filter_cons]
    by_cases hk : k ∈ route p
    · simp only [hk, decide_true, if_true]
      cases hr : (rest.filter fun p => decide (k ∈ route p)).getLast? with
      | some x => simp [List.getLast?_cons, hr]
      | none =>
        have : rest.filter (fun p => decide (k ∈ route p)) = [] := by simpa using hr
        simp [this]
    · simp [hk]

/-- non-vacuity: a newer packet for the same slot displaces the older one from the snapshot, a
    request is never saved -/
example :
    let route : P → List Nat := fun p => if p.code = "30C9" then [1, 2] else [3]
    let a : P := ⟨1, " I", "30C9", 3, false⟩
    let b : P := ⟨2, "RQ", "2309", 1, false⟩
    let c : P := ⟨3, " I", "30C9", 6, false⟩
    snapOf route false [a, b, c] = [c] := by decide

end Ramses.C16
