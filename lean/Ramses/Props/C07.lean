/-
  C07 — every send completes in bounded time with the right packet or a protocol error.
  Model: Model/Qos.lean (macro-step abstraction, see C08).
-/
import Ramses.Proofs.QosInv
namespace Ramses.C07
open Ramses Ramses.Qos

/-- **never another command's packet**: whatever the run, a caller that is handed an echo was
    handed it because an echo *of its own command* arrived, and likewise for a reply; every other
    outcome is a failure of the protocol-error family (`Out` has no other constructor) -/
theorem outcome_belongs (fails : List (Nat × Nat)) (evs : List (Nat × Ev)) (id : Nat) (o : Out) (t : Nat)
    (h : (id, o, t) ∈ (run (init fails) evs).outcomes) :
    o = .failed ∨ (o = .echo ∧ ∃ t', (t', Ev.echo id) ∈ evs) ∨ (o = .reply ∧ ∃ t', (t', Ev.reply id) ∈ evs) := by
  rcases run_outcome (init fails) evs (id, o, t) h with h | h | h | h
  · simp [init] at h
  · exact Or.inl h
  · exact Or.inr (Or.inl h)
  · exact Or.inr (Or.inr h)

/-- **bounded**: once time has been advanced to `t` and nothing is left due, every caller whose
    own timeout (capped at 20 s, measured from its call) lies at or before `t` has been answered -/
theorem pickCaller_some (l : List QCmd) (acc : Option (Nat × Option Nat)) (h : acc ≠ none ∨ l ≠ []) :
    l.foldl pickCaller acc ≠ none := by
  induction l generalizing acc with
  | nil => rcases h with h | h; exact h; exact absurd rfl h
  | cons x xs ih =>
    simp only [List.foldl_cons]
    apply ih; left
    cases acc with
    | none => simp [pickCaller]
    | some p => obtain ⟨w, i⟩ := p; simp only [pickCaller]; split <;> simp

theorem caught_up_answered (s : S) (t : Nat) (h : nextDue s t = none) (c : QCmd)
    (hc : c ∈ s.que ∨ s.cur = some c) (hd : c.deadline ≤ t) : s.outcomes.any (·.1 = c.id) = true := by
  cases ha : s.outcomes.any (·.1 = c.id) with
  | true => rfl
  | false =>
    exfalso
    have hmem : c ∈ dueCallers s t := by
      simp only [dueCallers, List.mem_filter, List.mem_append, Bool.and_eq_true, Bool.not_eq_true', decide_eq_true_eq]
      refine ⟨?_, ha, hd⟩
      rcases hc with hc | hc
      · exact Or.inl hc
      · exact Or.inr (by rw [hc]; simp)
    have hne : firstCaller s t ≠ none := pickCaller_some _ none (Or.inr (List.ne_nil_of_mem hmem))
    unfold nextDue at h
    cases hfc : firstCaller s t with
    | none => exact hne hfc
    | some p =>
      obtain ⟨cw, ci⟩ := p
      simp only [hfc] at h
      split at h
      · split at h
        · split at h <;> cases h
        · cases h
      · cases h

/-- a call made while disconnected, or into a full buffer, is answered at once (with an error) -/
theorem refused_at_once (s : S) (c : QCmd) (h : s.st = .inactive ∨ s.que.length ≥ maxBuffer) :
    (c.id, Out.failed, s.now) ∈ (apply s (.call c)).outcomes := by
  show (c.id, Out.failed, s.now) ∈ (if s.st = .inactive then answer { s with called := s.called ++ [c] } c.id .failed
      else if s.que.length ≥ maxBuffer then answer { s with called := s.called ++ [c] } c.id .failed
      else (if ({ s with que := s.que ++ [c], called := s.called ++ [c] } : S).st = .idle
            then goIdle (fuelOf { s with que := s.que ++ [c], called := s.called ++ [c] }) { s with que := s.que ++ [c], called := s.called ++ [c] }
            else { s with que := s.que ++ [c], called := s.called ++ [c] })).outcomes
  rcases h with h | h
  · rw [if_pos h]; simp [answer]
  · by_cases h1 : s.st = .inactive
    · rw [if_pos h1]; simp [answer]
    · rw [if_neg h1, if_pos h]; simp [answer]

/-- non-vacuity: prompt echo and reply; reply before echo; everything lost -/
example :
    (run (init []) [(0, .call ⟨0, 0, 0, 3, true, true, 20000000⟩), (20000, .echo 0), (100000, .reply 0)]).outcomes
      = [(0, .reply, 100000)] ∧
    (run (init []) [(0, .call ⟨0, 0, 0, 3, false, true, 20000000⟩), (10000, .reply 0)]).outcomes = [(0, .reply, 10000)] ∧
    (run (init []) [(0, .call ⟨0, 0, 0, 3, false, true, 20000000⟩), (20000, .echo 0)]).outcomes = [(0, .echo, 20000)] ∧
    (advance 64 (run (init []) [(0, .call ⟨0, 0, 0, 3, false, true, 1000000⟩)]) 2000000).outcomes = [(0, .failed, 1000000)] := by
  decide +kernel

end Ramses.C07
