import Ramses.Model.Match
namespace Ramses.C07
open Ramses
end Ramses.C07
