/-
  C05 — decoded payloads are JSON-able, deterministic, element-wise and index-consistent.

  `decode : Frame → Py Json` (Model/Parsers.lean) is a *function of the packet alone* and its
  values are `Json`: determinism and JSON-ability of the model hold by construction; that the
  implementation computes this function under every decoding history is what the correspondence
  check establishes (fresh / shuffled / caches cleared).  The theorems below are about the
  array-capable codes, the reported index, and value ranges.
-/
import Ramses.Model.Parsers
import Ramses.Proofs.HexLemmas
namespace Ramses.C05
open Ramses

/-! ### arrays decode element by element, for any number of elements -/

theorem chunks_go (k : Nat) (hk : 0 < k) (es : List (List Char)) (hes : ∀ e ∈ es, e.length = k)
    (fuel : Nat) (hf : es.length < fuel) : chunks.go k fuel es.flatten = es := by
  induction es generalizing fuel with
  | nil =>
    cases fuel with
    | zero => omega
    | succ n => simp [chunks.go]
  | cons e es ih =>
    cases fuel with
    | zero => omega
    | succ n =>
      have he : e.length = k := hes e (by simp)
      have hne : e ≠ [] := by intro h; rw [h] at he; simp at he; omega
      have hne2 : ¬ ((e :: es).flatten = []) := by
        simp only [List.flatten_cons]
        intro h
        exact hne (List.append_eq_nil_iff.mp h).1
      unfold chunks.go
      rw [if_neg hne2]
      simp only [List.flatten_cons]
      rw [List.take_left' he, List.drop_left' he]
      rw [ih (fun x hx => hes x (by simp [hx])) n (by simp at hf; omega)]

theorem chunks_flatten (k : Nat) (hk : 0 < k) (es : List (List Char)) (hes : ∀ e ∈ es, e.length = k) :
    chunks k es.flatten = es := by
  unfold chunks
  rw [if_neg (by omega)]
  apply chunks_go k hk es hes
  have : es.length ≤ es.flatten.length := by
    induction es with
    | nil => simp
    | cons e es ih =>
      have he : e.length = k := hes e (by simp)
      have := ih (fun x hx => hes x (by simp [hx]))
      simp only [List.length_cons, List.flatten_cons, List.length_append]
      omega
  omega

/-- the seven array-capable codes and their element length in bytes, as in the generated table -/
def isArrayCode (code : List Char) : Bool :=
  inS ["0009", "000A", "2309", "30C9", "2249", "22C9", "3150"] code

/-- **an array decodes to exactly the list of its elements' decodes, in order** — for every
    array-capable code, every number of elements (unbounded), every element content -/
theorem array_elementwise (f : Frame) (el : Nat) (es : List (List Char))
    (hcode : isArrayCode f.code = true) (hel : arrElemLen f.code = some el) (hpos : 0 < el)
    (hes : ∀ e ∈ es, e.length = 2 * el) (hp : f.payload = es.flatten) :
    parser f true = (mapM' (decodeElem f.code (f.srcType = Gen.devTypeUFC.toList)) es).map .list := by
  unfold parser
  simp only
  unfold isArrayCode at hcode
  rw [hcode]
  simp only [Bool.and_self, if_true, hel, hp]
  rw [chunks_flatten (2 * el) (by omega) es hes]

/-- the element lengths the theorem is applied with are the generated ones (all positive) -/
theorem array_codes_table :
    arrElemLen "0009".toList = some 3 ∧ arrElemLen "000A".toList = some 6 ∧ arrElemLen "2309".toList = some 3 ∧
    arrElemLen "30C9".toList = some 3 ∧ arrElemLen "2249".toList = some 7 ∧ arrElemLen "22C9".toList = some 6 ∧
    arrElemLen "3150".toList = some 2 := by decide

/-! ### the index an element reports is the one carried in the frame -/

def idxKeys : List String := ["zone_idx", "domain_id", "ufh_idx", "ufx_idx"]

theorem withIdx_ok (k : String) (e : List Char) (body : Py Dict) (d : Dict)
    (h : withIdx k e body = .ok d) : ∃ rest, d = (k, Json.str (e.take 2)) :: rest := by
  unfold withIdx at h
  split at h
  · injection h with h; exact ⟨_, h.symm⟩
  · cases h

theorem zoneOrDomainKey_mem (e : List Char) (z : String) (hz : idxKeys.contains z = true) :
    idxKeys.contains (zoneOrDomainKey e z) = true := by
  unfold zoneOrDomainKey
  split
  · decide
  · exact hz

/-- **the index an array element reports is the one carried in the frame**: every decoded
    element starts with an index entry whose value is the element's first byte -/
theorem elem_idx_consistent (code : List Char) (ufc : Bool) (e : List Char) (d : Dict)
    (h : decodeElem code ufc e = .ok d) :
    ∃ k rest, d = (k, Json.str (e.take 2)) :: rest ∧ idxKeys.contains k = true := by
  unfold decodeElem at h
  split at h
  · obtain ⟨r, hr⟩ := withIdx_ok _ _ _ _ h
    exact ⟨_, r, hr, zoneOrDomainKey_mem e _ (by decide)⟩
  split at h
  · obtain ⟨r, hr⟩ := withIdx_ok _ _ _ _ h; exact ⟨_, r, hr, by decide⟩
  split at h
  · obtain ⟨r, hr⟩ := withIdx_ok _ _ _ _ h; exact ⟨_, r, hr, by decide⟩
  split at h
  · obtain ⟨r, hr⟩ := withIdx_ok _ _ _ _ h; exact ⟨_, r, hr, by decide⟩
  split at h
  · obtain ⟨r, hr⟩ := withIdx_ok _ _ _ _ h; exact ⟨_, r, hr, by decide⟩
  split at h
  · obtain ⟨r, hr⟩ := withIdx_ok _ _ _ _ h; exact ⟨_, r, hr, by decide⟩
  split at h
  · obtain ⟨r, hr⟩ := withIdx_ok _ _ _ _ h
    refine ⟨_, r, hr, zoneOrDomainKey_mem e _ ?_⟩
    cases ufc <;> decide
  · cases h

/-! ### value ranges -/

/-- a decoded heat demand is a ratio in 0..1 (or null / a fault text) -/
theorem valve_demand_in_unit (v : List Char) (d : Dict) (h : parseValveDemand v = .ok d) :
    d = [("heat_demand", .null)] ∨ (∃ t, d = [("heat_demand_fault", .str t)]) ∨
    (∃ x : Dy, d = [("heat_demand", .num false x)] ∧ x.leFrac 1 1 = true) := by
  unfold parseValveDemand at h
  split at h; · cases h
  split at h
  · injection h with h; exact Or.inl h.symm
  split at h
  · cases h
  rename_i n hn
  split at h
  · injection h with h; exact Or.inr (Or.inl ⟨_, h.symm⟩)
  split at h
  · injection h with h; exact Or.inr (Or.inr ⟨_, h.symm, by decide⟩)
  split at h
  · cases h
  · injection h with h
    refine Or.inr (Or.inr ⟨_, h.symm, ?_⟩)
    rename_i h1 h2 h3
    have hle : n ≤ 200 := by omega
    -- all 201 grid values: the float n/200 is ≤ 1
    have hall : allIn 8 0 (fun k => decide (k > 200) || (divInt k 200).leFrac 1 1) = true := by
      decide +kernel
    have := allIn_spec 8 0 _ hall n (by omega) (by omega)
    simp only [Bool.or_eq_true, decide_eq_true_eq] at this
    rcases this with h | h
    · omega
    · exact h

/-- a decoded temperature lies in the wire range −273.15 … 327.67 °C: it is `k/100` for an
    integer −27315 ≤ k ≤ 32767 -/
theorem temp_in_wire_range (w : List Char) (neg : Bool) (x : Dy) (h : hexToTemp w = .ok (.num neg x)) :
    ∃ k : Int, -27315 ≤ k ∧ k ≤ 32767 ∧ TempV.num neg x = tempOfCenti k := by
  unfold hexToTemp at h
  split at h; · cases h
  rename_i hlen
  split at h; · cases h
  split at h; · cases h
  split at h; · cases h
  cases hn : ofHex w with
  | none => rw [hn] at h; cases h
  | some n =>
    rw [hn] at h
    simp only at h
    have hn16 : n < 2 ^ 16 := by
      have := ofHex_lt w n hn
      have hl : w.length = 4 := by simpa using hlen
      rw [hl] at this
      simpa using this
    by_cases hlt : n < 2 ^ 15
    · simp only [hlt, if_true] at h
      split at h
      · cases h
      · injection h with h
        exact ⟨n, by omega, by omega, h.symm⟩
    · simp only [hlt, if_false] at h
      split at h
      · cases h
      · rename_i hk
        injection h with h
        exact ⟨(n : Int) - 2 ^ 16, by omega, by omega, h.symm⟩

/-- non-vacuity: a real 3-zone array decodes to three elements carrying their own index -/
example :
    (match decode (frameFields " I --- 01:145038 --:------ 01:145038 2309 009 0001F40101F40207D0".toList) with
     | .ok (.arr [.obj [(k0, .str z0), (k1, .num n1 v1)], .obj [(_, .str z1), _], .obj [(_, .str z2), (_, .num _ v2)]]) =>
        decide (k0 = "zone_idx" ∧ z0 = "00".toList ∧ k1 = "setpoint" ∧ n1 = false ∧ v1 = divInt 500 100 ∧
                z1 = "01".toList ∧ z2 = "02".toList ∧ v2 = divInt 2000 100)
     | _ => false) = true := by decide +kernel

end Ramses.C05
