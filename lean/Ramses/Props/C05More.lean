/-
  C05 (continuation) — the parsers added in round 3: what they report is what the frame carries.
-/
import Ramses.Model.Parsers
set_option linter.unusedSimpArgs false
namespace Ramses.C05More
open Ramses

theorem hexToFlag8_bits (v : List Char) (l : List Nat) (h : hexToFlag8 v true = .ok l) : l.length = 8 ∧ ∀ b ∈ l, b ≤ 1 := by
  unfold hexToFlag8 at h
  split at h; · cases h
  split at h
  · cases h
  · injection h with h
    subst h
    simp only [if_true]
    constructor
    · simp [bitsMsb]
    · intro b hb
      simp only [bitsMsb, List.reverse_cons, List.reverse_nil, List.nil_append, List.cons_append, List.mem_cons,
        List.not_mem_nil, or_false] at hb
      rcases hb with h | h | h | h | h | h | h | h <;> subst h <;> omega

/-- **a zone mask is 8 or 16 flags, each 0 or 1** (0005: which zones are of a class) -/
theorem p0005_mask (f : Frame) (seqx : List Char) (d : Dict) (h : p0005Elem f seqx = .ok d) :
    ∃ (mask : List Nat) (cls : List Char), (mask.length = 8 ∨ mask.length = 16) ∧ (∀ b ∈ mask, b ≤ 1) ∧
      d = [("zone_type", .str (slice seqx 2 4)), ("zone_mask", .arr (mask.map jNat)), ("zone_class", .str cls)] := by
  unfold p0005Elem at h
  simp only [bind, Except.bind, pure, Except.pure] at h
  split at h
  · -- UFC
    cases hm : hexToFlag8 (slice seqx 6 8) true with
    | error e => simp [hm] at h
    | ok m =>
      simp only [hm] at h
      cases hr : mapGet Gen.devRoleFwd (slice seqx 2 4) with
      | error e => simp [hr] at h
      | ok dn =>
        simp only [hr] at h
        injection h with h
        have := hexToFlag8_bits _ _ hm
        exact ⟨m, _, Or.inl this.1, this.2, h.symm⟩
  · split at h
    · cases hm : hexToFlag8 (slice seqx 4 6) true with
      | error e => simp [hm] at h
      | ok m =>
        simp only [hm] at h
        cases hr : mapGet Gen.devRoleFwd (slice seqx 2 4) with
        | error e => simp [hr] at h
        | ok dn =>
          simp only [hr] at h
          injection h with h
          have := hexToFlag8_bits _ _ hm
          exact ⟨m, _, Or.inl this.1, this.2, h.symm⟩
    · cases ha : hexToFlag8 (slice seqx 4 6) true with
      | error e => simp [ha] at h
      | ok a =>
        simp only [ha] at h
        cases hb : hexToFlag8 (slice seqx 6 8) true with
        | error e => simp [hb] at h
        | ok b =>
          simp only [hb] at h
          cases hr : mapGet Gen.devRoleFwd (slice seqx 2 4) with
          | error e => simp [hr] at h
          | ok dn =>
            simp only [hr] at h
            injection h with h
            have h1 := hexToFlag8_bits _ _ ha
            have h2 := hexToFlag8_bits _ _ hb
            refine ⟨a ++ b, _, Or.inr (by simp [h1.1, h2.1]), ?_, h.symm⟩
            intro x hx
            rcases List.mem_append.1 hx with hx | hx
            · exact h1.2 x hx
            · exact h2.2 x hx

/-- **a schedule fragment is reported verbatim, with the length the frame announces** (RP / W 0404) -/
theorem p0404_fragment (f : Frame) (d : Dict) (hv : f.verb ≠ vRQ) (hi : f.verb ≠ vI)
    (hff : slice f.payload 12 14 ≠ Gen.domFF.toList) (h : p0404 f = .ok (.dict d)) :
    ∃ flen num tot, ofHex (slice f.payload 8 10) = some flen ∧ flen * 2 = (f.payload.drop 14).length ∧
      d = [("frag_number", jNat num), ("total_frags", jNat tot),
           ("frag_length", if slice f.payload 8 10 = s "FF" then .null else jNat flen), ("fragment", .str (f.payload.drop 14))] := by
  unfold p0404 at h
  simp only [bind, Except.bind, pure, Except.pure, pyAssert, pyInt16, throw, throwThe, MonadExceptOf.throw] at h
  by_cases ha : (slice f.payload 4 6 = s "00" || slice f.payload 4 6 = f.payload.take 2) = true
  · simp only [ha, if_true] at h
    cases hl : ofHex (slice f.payload 8 10) with
    | none => simp [hl] at h
    | some flen =>
      simp only [hl] at h
      by_cases hbad : (decide (flen * 2 ≠ (f.payload.drop 14).length) && (decide (f.verb ≠ vI) || decide ((f.payload.drop 14).length ≠ 0))) = true
      · simp only [hbad, if_true] at h; cases h
      · simp only [hbad] at h
        cases hn : ofHex (slice f.payload 10 12) with
        | none => simp [hn] at h
        | some num =>
          simp only [hn, hv, hi, hff, if_false] at h
          cases ht : ofHex (slice f.payload 12 14) with
          | none => simp [ht] at h
          | some tot =>
            simp only [ht] at h
            injection h with h
            injection h with h
            refine ⟨flen, num, tot, rfl, ?_, h.symm⟩
            by_cases hq : flen * 2 = (f.payload.drop 14).length
            · exact hq
            · exfalso; apply hbad; simp only [List.length_drop] at hq; simp [hq, hi]
  · simp only [ha] at h; cases h

/-- the log index an `I|0418` / `RQ|0418` reports is the one carried in the frame -/
theorem p0418_idx (f : Frame) (d : Dict) (hv : f.verb = vRQ ∨ f.verb = vI) (h : p0418 f = .ok (.dict d)) :
    ∃ rest, d = ("log_idx", .str (slice f.payload 4 6)) :: rest := by
  unfold p0418 at h
  simp only [bind, Except.bind, pure, Except.pure] at h
  split at h
  · injection h with h; injection h with h; exact ⟨_, h.symm⟩
  · rename_i hq
    have hvi : f.verb = vI := by rcases hv with h | h; exact absurd h hq; exact h
    cases ht : dtsText (slice f.payload 18 30) with
    | error e => simp [ht] at h
    | ok ts =>
      simp only [ht] at h
      cases ts with
      | none =>
        simp only [hvi, if_true] at h
        injection h with h; injection h with h; exact ⟨_, h.symm⟩
      | some stamp =>
        simp only [pyAssert] at h
        by_cases hlen : f.payload.length = 44
        · simp only [hlen, decide_true, if_true] at h
          cases hd : hexIdToDevId (f.payload.drop 38) with
          | error e => rw [hd] at h; cases h
          | ok dev =>
            rw [hd] at h
            injection h with h; injection h with h; exact ⟨_, h.symm⟩
        · simp only [hlen, decide_false] at h; cases h

end Ramses.C05More
