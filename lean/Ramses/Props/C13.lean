/-
  C13 — no traffic can break the gateway: the engine keeps running.

  The theorems cover the engine's running state under snapshot / restore (any number of them, each
  succeeding or failing); that the *views* never raise is decided on the implementation by the
  search (DESIGN.md §3 C13: partial).
-/
import Ramses.Model.Engine
namespace Ramses.C13
open Ramses.Eng

/-- **Taking a snapshot or restoring one leaves the engine exactly as before, whether or not the
    operation itself succeeded** -/
theorem guarded_preserves (e : Eng) (raises : Bool) (h : Running e)
    (hro : e.disableSending = true → e.writePaused = true) : (guarded raises e).1 = e := by
  obtain ⟨h1, h2, h3, h4, h5⟩ := h
  cases e with
  | mk saved handler ds dd rd wp lk =>
    simp only at h1 h2 h3 h4 h5 hro
    subst h1 h2 h3 h5
    cases ds <;> simp_all [guarded, pause, resume]

/-- a listen-only engine (sending disabled) is preserved too, except that its (unused) write side
    is left paused -/
theorem guarded_preserves_readonly (e : Eng) (raises : Bool) (h : Running e) :
    (guarded raises e).1 = { e with writePaused := if e.disableSending then true else e.writePaused } := by
  obtain ⟨h1, h2, h3, h4, h5⟩ := h
  cases e with
  | mk saved handler ds dd rd wp lk =>
    simp only at h1 h2 h3 h4 h5
    subst h1 h2 h3 h5
    cases ds <;> simp_all [guarded, pause, resume]

theorem guarded_result (e : Eng) (raises : Bool) (h : Running e) :
    (guarded raises e).2 = if raises then .raised else .ok := by
  obtain ⟨h1, _, _, _, h5⟩ := h
  cases e with
  | mk saved handler ds dd rd wp lk =>
    simp only at h1 h5; subst h1 h5
    simp [guarded, pause, resume]

/-- any sequence of snapshot / restore operations, each failing or not, leaves a running engine
    running and unchanged -/
theorem any_sequence_preserves (bs : List Bool) : ∀ (e : Eng), Running e →
    (e.disableSending = true → e.writePaused = true) → runOps e bs = e := by
  induction bs with
  | nil => intro e _ _; rfl
  | cons b bs ih =>
    intro e h hro
    simp only [runOps]
    rw [guarded_preserves e b h hro]
    exact ih e h hro

/-- an operation attempted while the engine is already paused is refused and changes nothing -/
theorem nested_refused (e : Eng) (raises : Bool) (s : Saved) (h : e.saved = some s) :
    guarded raises e = (e, .runtimeError) := by
  unfold guarded pause
  split <;> simp_all

/-- **snapshot / restore attempts made while another one is in progress** (any number, failing or
    not) are each refused, change nothing, and the operation in progress still ends with the engine
    exactly as before -/
theorem nested_attempts_harmless (e : Eng) (raises : Bool) (nested : List Bool) (h : Running e)
    (hro : e.disableSending = true → e.writePaused = true) :
    (guardedWithNested raises nested e).1 = e ∧
    (guardedWithNested raises nested e).2.2 = nested.map (fun _ => Res.runtimeError) := by
  obtain ⟨h1, h2, h3, h4, h5⟩ := h
  cases e with
  | mk saved handler ds dd rd wp lk =>
    simp only at h1 h2 h3 h4 h5 hro
    subst h1 h2 h3 h5
    -- after the pause the engine is paused and unlocked; every nested attempt leaves it so
    have key : ∀ (ns : List Bool) (acc : List Res) (p : Eng), (∃ s, p.saved = some s) →
        ns.foldl (fun (acc : Eng × List Res) b => ((guarded b acc.1).1, acc.2 ++ [(guarded b acc.1).2])) (p, acc)
          = (p, acc ++ ns.map (fun _ => Res.runtimeError)) := by
      intro ns
      induction ns with
      | nil => intro acc p _; simp
      | cons b bs ih =>
        intro acc p hp
        obtain ⟨s, hs⟩ := hp
        simp only [List.foldl_cons, nested_refused p b s hs]
        rw [ih (acc ++ [Res.runtimeError]) p ⟨s, hs⟩]
        simp
    unfold guardedWithNested
    simp only [pause, Bool.false_eq_true, if_false]
    have := key nested [] ⟨some ⟨true, ds, dd⟩, false, true, true, false, true, false⟩ ⟨_, rfl⟩
    simp only [List.nil_append] at this
    rw [this]
    cases ds <;> simp_all [resume]


/-- why the `finally` matters: without it one failing snapshot leaves the handler removed, sending
    disabled and the engine marked paused — and every later snapshot is refused -/
def e0 : Eng := ⟨none, true, false, false, true, false, false⟩

theorem unguarded_breaks :
    Running e0 ∧ (unguarded true e0).1.handler = false ∧ (unguarded true e0).1.disableSending = true ∧
      (unguarded false (unguarded true e0).1).2 = .runtimeError := by
  refine ⟨by simp [Running, e0], by decide, by decide, by decide⟩

example : Running ⟨none, true, false, false, true, false, false⟩ := by simp [Running]

end Ramses.C13
