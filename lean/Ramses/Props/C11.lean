/-
  C11 — transmit regulation holds for every send pattern.

  All theorems are about arbitrary histories (lists of any length), arbitrary frame sizes and
  arbitrary window positions; `R`, `C`, `M`, `W` are arbitrary too, and are instantiated with the
  constants the translator reads out of /repo at the end of the file.
-/
import Ramses.Props.C11Sync
import Ramses.Model.Limiter
import Ramses.Gen.Consts
namespace Ramses.C11
open Ramses.Lim

/-! ### duty-cycle bucket: helper lemmas -/

/-- potential: level minus what the clock has already paid for -/
def phi (R : Nat) (b : Bucket) : Int := b.lvl - (b.last : Int) * (R : Int)

theorem admit_last (R C : Nat) (b : Bucket) (t z : Nat) : (debit R C b t z).last = t := rfl

theorem admit_phi_le (R C : Nat) (b : Bucket) (t z : Nat) (h : b.last ≤ t) :
    phi R (debit R C b t z) + (z : Int) ≤ phi R b := by
  unfold phi debit refill
  simp only
  have e : (((t - b.last : Nat) : Int)) = (t : Int) - (b.last : Int) := by omega
  rw [e, Int.sub_mul]
  omega

theorem admit_lvl_le (R C : Nat) (b : Bucket) (t z : Nat) :
    (debit R C b t z).lvl + (z : Int) ≤ (C : Int) := by
  unfold debit refill
  simp only
  omega

theorem timely_last_le (R C : Nat) : ∀ (rs : List Req) (b : Bucket), Timely R C b rs →
    b.last ≤ (admitAll R C b rs).last := by
  intro rs
  induction rs with
  | nil => intro b _; simp [admitAll]
  | cons r rs ih =>
    intro b h
    obtain ⟨h1, _, h3⟩ := h
    have := ih _ h3
    simp only [admitAll, List.foldl_cons] at this ⊢
    rw [admit_last] at this
    omega

/-- every admission lowers the potential by at least its size -/
theorem sum_phi_le (R C : Nat) : ∀ (rs : List Req) (b : Bucket), Timely R C b rs →
    (sumZ rs : Int) + phi R (admitAll R C b rs) ≤ phi R b := by
  intro rs
  induction rs with
  | nil => intro b _; simp [sumZ, admitAll]
  | cons r rs ih =>
    intro b h
    obtain ⟨h1, _, h3⟩ := h
    have a := ih _ h3
    have c := admit_phi_le R C b r.t r.z h1
    simp only [admitAll, List.foldl_cons, sumZ, List.map_cons, List.sum_cons] at a ⊢
    push_cast
    omega

theorem timely_append (R C : Nat) : ∀ (xs ys : List Req) (b : Bucket),
    Timely R C b (xs ++ ys) ↔ Timely R C b xs ∧ Timely R C (admitAll R C b xs) ys := by
  intro xs
  induction xs with
  | nil => intro ys b; simp [Timely, admitAll]
  | cons x xs ih =>
    intro ys b
    simp only [List.cons_append, Timely, admitAll, List.foldl_cons]
    rw [ih]
    simp only [admitAll]
    constructor
    · rintro ⟨a, b', c, d⟩; exact ⟨⟨a, b', c⟩, d⟩
    · rintro ⟨⟨a, b', c⟩, d⟩; exact ⟨a, b', c, d⟩

theorem admitAll_append (R C : Nat) (xs ys : List Req) (b : Bucket) :
    admitAll R C b (xs ++ ys) = admitAll R C (admitAll R C b xs) ys := by
  simp [admitAll, List.foldl_append]

theorem sumZ_append (xs ys : List Req) : sumZ (xs ++ ys) = sumZ xs + sumZ ys := by
  simp [sumZ]

/-- sum of the sizes of the requests of `rs` written in the window -/
def winZ (s e : Nat) (rs : List Req) : Nat := sumZ (rs.filter (inWindow s e))

theorem winZ_le_sumZ (s e : Nat) (rs : List Req) : winZ s e rs ≤ sumZ rs := by
  unfold winZ sumZ
  induction rs with
  | nil => simp
  | cons r rs ih =>
    simp only [List.filter_cons]
    split <;> simp only [List.map_cons, List.sum_cons] <;> omega

theorem winZ_append (s e : Nat) (xs ys : List Req) : winZ s e (xs ++ ys) = winZ s e xs + winZ s e ys := by
  simp [winZ, sumZ_append]

/-- core lemma: starting from *any* bucket state at a time ≥ `s` (more exactly: every admission
    of `rs` is after `s`), the bits written inside the window that were admitted by `rs` are bounded
    by one bucket plus the refill over the window.  Snoc-induction: look at the last request. -/
theorem burst_bound (R C : Nat) (s e : Nat) : ∀ (n : Nat) (rs : List Req), rs.length = n → ∀ (b : Bucket),
    Timely R C b rs → b.lvl ≤ (C : Int) → (∀ r ∈ rs, s < r.t) → s ≤ b.last →
    (winZ s e rs : Int) ≤ (C : Int) + ((e : Int) - (s : Int)) * (R : Int) ∨ winZ s e rs = 0 := by
  intro n
  induction n with
  | zero =>
    intro rs hl b _ _ _ _; right
    have : rs = [] := List.length_eq_zero_iff.mp hl
    subst this; simp [winZ, sumZ]
  | succ n ih =>
    intro rs hl b ht hb hs hsb
    have hne : rs ≠ [] := by intro h; subst h; simp at hl
    obtain ⟨init, r, rfl⟩ : ∃ init r, rs = init ++ [r] :=
      ⟨rs.dropLast, rs.getLast hne, (List.dropLast_concat_getLast hne).symm⟩
    have hli : init.length = n := by simp at hl; omega
    rw [timely_append] at ht
    obtain ⟨hti, htr⟩ := ht
    by_cases hw : inWindow s e r = true
    · -- the last request is written inside the window: bound everything admitted by `rs`
      left
      have hsum := sum_phi_le R C init b hti
      obtain ⟨hr1, hr2, _⟩ := htr
      have hphi := admit_phi_le R C (admitAll R C b init) r.t r.z hr1
      have hlast := timely_last_le R C init b hti
      have hwz : winZ s e (init ++ [r]) ≤ sumZ init + r.z := by
        have := winZ_le_sumZ s e (init ++ [r]); rw [sumZ_append] at this
        simpa [sumZ] using this
      -- the first admission after `s` found at most a full bucket
      unfold inWindow at hw
      simp only [Bool.and_eq_true, decide_eq_true_eq] at hw
      have hrt : s < r.t := hs r (by simp)
      -- potential at the start is at most C - s*R
      have hb0 : b.lvl - (b.last : Int) * (R : Int) ≤ (C : Int) - (s : Int) * (R : Int) := by
        have : (s : Int) * (R : Int) ≤ (b.last : Int) * (R : Int) :=
          Int.mul_le_mul_of_nonneg_right (by omega) (by omega)
        omega
      -- due time of r: t*R + debt ≤ w*R
      unfold dueR debt at hr2
      rw [admit_last] at hr2
      unfold phi at hphi hsum
      rw [admit_last] at hphi
      have hwe : (r.w : Int) * (R : Int) ≤ (e : Int) * (R : Int) :=
        Int.mul_le_mul_of_nonneg_right (by omega) (by omega)
      have hr2' : ((r.t * R + (-(debit R C (admitAll R C b init) r.t r.z).lvl).toNat : Nat) : Int) ≤ ((r.w * R : Nat) : Int) := by
        exact_mod_cast hr2
      push_cast at hr2'
      rw [Int.sub_mul]
      have hzz : (winZ s e (init ++ [r]) : Int) ≤ (sumZ init : Int) + (r.z : Int) := by exact_mod_cast hwz
      omega
    · -- the last request is not in the window: it contributes nothing
      have hw' : inWindow s e r = false := by simpa using hw
      have e1 : winZ s e (init ++ [r]) = winZ s e init := by
        rw [winZ_append]; simp [winZ, sumZ, hw']
      rw [e1]
      exact ih init hli b hti hb (fun r' hr' => hs r' (by simp [hr'])) hsb

/-! ### the property theorems -/

/-- topping the bucket up at an intermediate instant changes nothing -/
theorem admit_via (R C : Nat) (b : Bucket) (s t z : Nat) (h1 : b.last ≤ s) (h2 : s ≤ t) :
    debit R C ⟨refill R C b s, s⟩ t z = debit R C b t z := by
  unfold debit refill
  simp only
  have e : (((t - b.last : Nat) : Int)) * (R : Int)
      = (((s - b.last : Nat) : Int)) * (R : Int) + (((t - s : Nat) : Int)) * (R : Int) := by
    rw [← Int.add_mul]; congr 1; omega
  rw [e]
  have p1 : (0 : Int) ≤ (((t - s : Nat) : Int)) * (R : Int) := Int.mul_nonneg (by omega) (by omega)
  congr 1
  omega

theorem duty_window_core (R C : Nat) (pre post : List Req) (s e : Nat)
    (hpost : ∀ r ∈ post, s < r.t) (hlast : (admitAll R C ⟨C, 0⟩ pre).last ≤ s)
    (ht : Timely R C ⟨C, 0⟩ (pre ++ post)) :
    (winZ s e post : Int) ≤ (C : Int) + ((e : Int) - (s : Int)) * (R : Int) ∨ winZ s e post = 0 := by
  rw [timely_append] at ht
  obtain ⟨_, h2⟩ := ht
  cases post with
  | nil => right; simp [winZ, sumZ]
  | cons r rs =>
    have hrt : s < r.t := hpost r (by simp)
    have hv := admit_via R C (admitAll R C ⟨C, 0⟩ pre) s r.t r.z hlast (by omega)
    have ht' : Timely R C ⟨refill R C (admitAll R C ⟨C, 0⟩ pre) s, s⟩ (r :: rs) := by
      obtain ⟨ha, hb, hc⟩ := h2
      refine ⟨by simp; omega, ?_, ?_⟩ <;> rw [hv] <;> assumption
    exact burst_bound R C s e (r :: rs).length (r :: rs) rfl _ ht'
      (by unfold refill; simp only; omega) hpost (by simp)

theorem admitAll_last_le (R C : Nat) (s : Nat) : ∀ (rs : List Req) (b : Bucket),
    b.last ≤ s → (∀ r ∈ rs, r.t ≤ s) → (admitAll R C b rs).last ≤ s := by
  intro rs
  induction rs with
  | nil => intro b h _; simpa [admitAll] using h
  | cons r rs ih =>
    intro b _ h2
    simp only [admitAll, List.foldl_cons]
    exact ih _ (by rw [admit_last]; exact h2 r (by simp)) (fun r' hr' => h2 r' (by simp [hr']))

/-! ### the property theorems -/

/-- **Window bound (serial gateway).**  For every timely history (any number of requests, any
    sizes, any concurrency — a request may be written long after later ones were admitted) and
    every window `(s, e]`: the bits written in the window that were admitted after `s` never exceed
    one full bucket plus the refill over the window.  The bucket starts full at time 0. -/
theorem duty_window_bound (R C : Nat) (pre post : List Req) (s e : Nat) (hse : s ≤ e)
    (hpre : ∀ r ∈ pre, r.t ≤ s) (hpost : ∀ r ∈ post, s < r.t)
    (ht : Timely R C ⟨C, 0⟩ (pre ++ post)) :
    winZ s e post ≤ C + (e - s) * R := by
  have hl := admitAll_last_le R C s pre ⟨C, 0⟩ (Nat.zero_le _) hpre
  rcases duty_window_core R C pre post s e hpost hl ht with h | h
  · have e1 : ((e : Int) - (s : Int)) = ((e - s : Nat) : Int) := by omega
    rw [e1] at h
    exact_mod_cast h
  · rw [h]; exact Nat.zero_le _

/-- requests of `pre` written inside the window were pending at `s` -/
theorem winZ_pre_le_pending (s e : Nat) (pre : List Req) (hpre : ∀ r ∈ pre, r.t ≤ s) :
    winZ s e pre ≤ sumZ (pre.filter (pendingAt s)) := by
  unfold winZ sumZ
  induction pre with
  | nil => simp
  | cons r rs ih =>
    have ih' := ih (fun r' hr' => hpre r' (by simp [hr']))
    have hr := hpre r (by simp)
    simp only [List.filter_cons]
    by_cases h1 : inWindow s e r = true
    · have h2 : pendingAt s r = true := by
        unfold inWindow at h1; unfold pendingAt
        simp only [Bool.and_eq_true, decide_eq_true_eq] at h1 ⊢
        exact ⟨hr, h1.1⟩
      simp only [h1, h2, if_true, List.map_cons, List.sum_cons]; omega
    · have h1' : inWindow s e r = false := by simpa using h1
      by_cases h2 : pendingAt s r = true
      · simp only [h1', h2, if_true, Bool.false_eq_true, if_false, List.map_cons, List.sum_cons]; omega
      · have h2' : pendingAt s r = false := by simpa using h2
        simpa [h1', h2'] using ih'

/-- **the statement of the property**: bits handed to the radio in any window never exceed the
    allowance for that window plus one full bucket plus one frame per write already pending -/
theorem duty_window_total (R C : Nat) (pre post : List Req) (s e : Nat) (hse : s ≤ e)
    (hpre : ∀ r ∈ pre, r.t ≤ s) (hpost : ∀ r ∈ post, s < r.t)
    (ht : Timely R C ⟨C, 0⟩ (pre ++ post)) :
    winZ s e (pre ++ post) ≤ (e - s) * R + C + sumZ (pre.filter (pendingAt s)) := by
  rw [winZ_append]
  have a := duty_window_bound R C pre post s e hse hpre hpost ht
  have b := winZ_pre_le_pending s e pre hpre
  omega

/-- long-run rate: everything written by time `e` is at most one bucket plus `R * e` -/
theorem duty_long_run (R C : Nat) (rs : List Req) (e : Nat) (hpos : ∀ r ∈ rs, 0 < r.t)
    (ht : Timely R C ⟨C, 0⟩ rs) : winZ 0 e rs ≤ C + e * R := by
  have := duty_window_bound R C [] rs 0 e (Nat.zero_le _) (by simp) hpos (by simpa using ht)
  simpa using this

/-- **Order is preserved by the wait**: due times never decrease along the admission order, so
    the timers of the sleeping writers fire in the order the frames were offered. -/
theorem due_step_mono (R C : Nat) (b : Bucket) (t1 z1 t2 z2 : Nat) (_h0 : b.last ≤ t1) (h : t1 ≤ t2) :
    dueR R (debit R C b t1 z1) ≤ dueR R (debit R C (debit R C b t1 z1) t2 z2) := by
  unfold dueR debt
  simp only [admit_last]
  unfold debit refill
  simp only
  have e : (((t2 - t1 : Nat) : Int)) * (R : Int) = (t2 : Int) * (R : Int) - (t1 : Int) * (R : Int) := by
    rw [← Int.sub_mul]; congr 1; omega
  have hm : t1 * R ≤ t2 * R := Nat.mul_le_mul_right R h
  rw [e]
  omega

theorem dues_sorted (R C : Nat) : ∀ (rs : List Req) (b : Bucket), Timely R C b rs →
    (dues R C b rs).Pairwise (· ≤ ·) := by
  intro rs
  induction rs with
  | nil => intro b _; simp [dues]
  | cons r rs ih =>
    intro b h
    obtain ⟨h1, _, h3⟩ := h
    simp only [dues, List.pairwise_cons]
    refine ⟨?_, ih _ h3⟩
    -- every later due is ≥ the next one, which is ≥ this one
    have hp := ih _ h3
    cases rs with
    | nil => intro x hx; simp [dues] at hx
    | cons r2 rs2 =>
      obtain ⟨g1, _, _⟩ := h3
      rw [admit_last] at g1
      have step := due_step_mono R C b r.t r.z r2.t r2.z h1 g1
      intro x hx
      simp only [dues, List.mem_cons] at hx
      rcases hx with hx | hx
      · rw [hx]; exact step
      · simp only [dues, List.pairwise_cons] at hp
        exact Nat.le_trans step (hp.1 x hx)

/-- a writer that has to sleep is due strictly later than its predecessor (frames are not empty) -/
theorem due_step_strict (R C : Nat) (b : Bucket) (t1 z1 t2 z2 : Nat) (_h0 : b.last ≤ t1) (h : t1 ≤ t2)
    (hz : 0 < z2) (hsleep : (debit R C (debit R C b t1 z1) t2 z2).lvl < 0)
    (hprev : (debit R C b t1 z1).lvl < 0) :
    dueR R (debit R C b t1 z1) < dueR R (debit R C (debit R C b t1 z1) t2 z2) := by
  unfold dueR debt
  simp only [admit_last]
  unfold debit refill at *
  simp only at *
  have e : (((t2 - t1 : Nat) : Int)) * (R : Int) = (t2 : Int) * (R : Int) - (t1 : Int) * (R : Int) := by
    rw [← Int.sub_mul]; congr 1; omega
  have hm : t1 * R ≤ t2 * R := Nat.mul_le_mul_right R h
  rw [e] at hsleep
  rw [e]
  omega

/-! ### the leaker semaphore: spacing, order, exactly once -/

theorem semRun_append (s : Sem) (a b : List SemEv) : semRun s (a ++ b) = semRun (semRun s a) b := by
  simp [semRun, List.foldl_append]

/-- FIFO invariant: writers that acquired, followed by the writers still waiting, are exactly the
    arrivals in arrival order — nobody is lost, duplicated or overtaken -/
theorem sem_fifo (evs : List SemEv) : ∀ (s : Sem),
    (semRun s evs).out ++ (semRun s evs).q = s.out ++ s.q ++ arrivals evs := by
  induction evs with
  | nil => intro s; simp [semRun, arrivals]
  | cons ev evs ih =>
    intro s
    simp only [semRun, List.foldl_cons] at ih ⊢
    rw [ih]
    cases ev with
    | tick =>
      simp only [semStep, arrivals]
      cases hq : s.q with
      | nil => simp
      | cons id q' => simp
    | arrive id =>
      simp only [semStep, arrivals]
      by_cases h : (s.tok && s.q.isEmpty) = true
      · simp only [h, if_true]
        have : s.q = [] := by
          simp only [Bool.and_eq_true, List.isEmpty_iff] at h; exact h.2
        simp [this]
      · simp [h]

/-- **in order, at most once**: the written frames are a prefix of the offered frames -/
theorem sem_in_order (evs : List SemEv) : (semRun Sem.init evs).out <+: arrivals evs := by
  have := sem_fifo evs Sem.init
  simp only [Sem.init, List.nil_append] at this
  exact ⟨_, this⟩

def tokN (s : Sem) : Nat := if s.tok then 1 else 0

theorem sem_spacing_aux (evs : List SemEv) : ∀ (s : Sem),
    (semRun s evs).out.length + tokN (semRun s evs) ≤ s.out.length + tokN s + ticks evs := by
  induction evs with
  | nil => intro s; simp [semRun, ticks]
  | cons ev evs ih =>
    intro s
    simp only [semRun, List.foldl_cons] at ih ⊢
    have := ih (semStep s ev)
    cases ev with
    | tick =>
      simp only [ticks]
      simp only [semStep] at this ⊢
      cases hq : s.q with
      | nil => simp only [hq, tokN] at this ⊢; split at this <;> split <;> simp_all <;> omega
      | cons id q' => simp only [hq, tokN, List.length_append, List.length_cons, List.length_nil] at this ⊢; omega
    | arrive id =>
      simp only [ticks]
      simp only [semStep] at this ⊢
      by_cases h : (s.tok && s.q.isEmpty) = true
      · simp only [h, if_true, tokN, List.length_append, List.length_cons, List.length_nil] at this ⊢
        have ht : s.tok = true := by simp only [Bool.and_eq_true] at h; exact h.1
        simp only [ht, if_true] at this ⊢
        simp at this
        omega
      · simp only [h, tokN] at this ⊢; simpa using this

/-- **Write spacing**: in *any* window of *any* history (before / window / after are arbitrary
    event lists), the number of writes is at most the number of leaker ticks in it, plus one -/
theorem sem_spacing (before window : List SemEv) :
    (semRun Sem.init (before ++ window)).out.length
      ≤ (semRun Sem.init before).out.length + ticks window + 1 := by
  rw [semRun_append]
  have := sem_spacing_aux window (semRun Sem.init before)
  have h1 : tokN (semRun Sem.init before) ≤ 1 := by unfold tokN; split <;> omega
  omega

theorem semRun_ticks (n : Nat) : ∀ (s : Sem), (semRun s (List.replicate n .tick)).out = s.out ++ s.q.take n ∧
    (semRun s (List.replicate n .tick)).q = s.q.drop n := by
  induction n with
  | zero => intro s; simp [semRun]
  | succ n ih =>
    intro s
    simp only [List.replicate_succ, semRun, List.foldl_cons] at ih ⊢
    have := ih (semStep s .tick)
    rw [this.1, this.2]
    simp only [semStep]
    cases hq : s.q with
    | nil => simp
    | cons id q' => simp

/-- **only delays**: once offers stop, `n ≥ |queue|` further ticks write every accepted frame:
    the written list is then exactly the offered list (each once, in order) -/
theorem sem_drains (evs : List SemEv) (n : Nat) (hn : (semRun Sem.init evs).q.length ≤ n) :
    (semRun Sem.init (evs ++ List.replicate n .tick)).out = arrivals evs := by
  rw [semRun_append]
  have h := (semRun_ticks n (semRun Sem.init evs)).1
  rw [h, List.take_of_length_le hn]
  have := sem_fifo evs Sem.init
  simpa [Sem.init] using this

/-! ### MQTT token bucket -/

def MWF (k : Tok) : Prop := k.n ≤ k.mx

def mphi (M : Nat) (k : Tok) : Int := k.n - (k.stamp : Int) * (M : Int)

/-- non-forced offers at the given times -/
def mqRun (M W : Nat) (k : Tok) : List Nat → Tok
  | [] => k
  | t :: ts => mqRun M W (mqOffer M W k t false).1 ts

def wrote : MqOut → Nat
  | .dropped => 0
  | .written _ => 1

def mqCount (M W : Nat) (k : Tok) : List Nat → Nat
  | [] => 0
  | t :: ts => wrote (mqOffer M W k t false).2 + mqCount M W (mqOffer M W k t false).1 ts

def Ordered (last : Nat) : List Nat → Prop
  | [] => True
  | t :: ts => last ≤ t ∧ Ordered t ts

theorem mqOffer_stamp (M W : Nat) (k : Tok) (t : Nat) (f : Bool) : (mqOffer M W k t f).1.stamp = t := by
  unfold mqOffer; simp only; split <;> rfl

/-- a write that is not dropped sleeps for at most one second (`u / M ≤ 10^9 ns`) -/
theorem mq_wait_le_1s (M W : Nat) (k : Tok) (t : Nat) (u : Nat)
    (h : (mqOffer M W k t false).2 = .written u) : u ≤ M * nano := by
  unfold mqOffer at h
  simp only at h
  split at h
  · cases h
  · rename_i hc
    simp only [MqOut.written.injEq] at h
    simp only [and_true, Int.not_lt] at hc
    unfold tokUnit at *
    split at h <;> push_cast at * <;> omega

/-- an over-budget write is dropped, never queued: dropped iff the topped-up level is below
    `1 - rate` tokens -/
theorem mq_drop_iff (M W : Nat) (k : Tok) (t : Nat) :
    (mqOffer M W k t false).2 = .dropped ↔
      min (k.n + (((t - k.stamp : Nat) : Int)) * (M : Int)) k.mx < tokUnit W - (M : Int) * (nano : Int) := by
  unfold mqOffer
  simp only [and_true]
  split <;> simp_all

/-- the topped-up level -/
def mqN1 (M : Nat) (k : Tok) (t : Nat) : Int := min (k.n + (((t - k.stamp : Nat) : Int)) * (M : Int)) k.mx

theorem mqOffer_dropped (M W : Nat) (k : Tok) (t : Nat)
    (h : mqN1 M k t < tokUnit W - (M : Int) * (nano : Int)) :
    mqOffer M W k t false = (⟨mqN1 M k t, k.mx, t⟩, .dropped) := by
  unfold mqOffer mqN1 at *
  simp only [and_true]
  rw [if_pos h]

theorem mqOffer_written (M W : Nat) (k : Tok) (t : Nat)
    (h : ¬ mqN1 M k t < tokUnit W - (M : Int) * (nano : Int)) :
    ∃ u, mqOffer M W k t false =
      (⟨mqN1 M k t - tokUnit W,
        if k.mx > (M : Int) * tokUnit W then max (min k.mx (mqN1 M k t - tokUnit W)) ((M : Int) * tokUnit W) else k.mx, t⟩,
       .written u) := by
  unfold mqOffer mqN1 at *
  simp only [and_true]
  rw [if_neg h]
  exact ⟨_, rfl⟩

theorem mqN1_facts (M : Nat) (k : Tok) (t : Nat) (hk : MWF k) (ht : k.stamp ≤ t) :
    mqN1 M k t ≤ k.mx ∧ k.n ≤ mqN1 M k t ∧
    mqN1 M k t - (t : Int) * (M : Int) ≤ k.n - (k.stamp : Int) * (M : Int) := by
  unfold mqN1 MWF at *
  have e : (((t - k.stamp : Nat) : Int)) * (M : Int) = (t : Int) * (M : Int) - (k.stamp : Int) * (M : Int) := by
    rw [← Int.sub_mul]; congr 1; omega
  have hp : (0 : Int) ≤ (((t - k.stamp : Nat) : Int)) * (M : Int) := Int.mul_nonneg (by omega) (by omega)
  rw [e] at hp ⊢
  omega

theorem mq_step (M W : Nat) (k : Tok) (t : Nat) (hk : MWF k) (ht : k.stamp ≤ t) :
    MWF (mqOffer M W k t false).1 ∧
    mphi M (mqOffer M W k t false).1 + (match (mqOffer M W k t false).2 with | .dropped => 0 | .written _ => tokUnit W) ≤ mphi M k ∧
    (mqOffer M W k t false).1.mx ≤ k.mx ∧
    (match (mqOffer M W k t false).2 with
      | .dropped => k.n ≤ (mqOffer M W k t false).1.n
      | .written _ => -((M : Int) * (nano : Int)) ≤ (mqOffer M W k t false).1.n) := by
  obtain ⟨f1, f2, f3⟩ := mqN1_facts M k t hk ht
  have hu : (0 : Int) ≤ tokUnit W := by unfold tokUnit nano; exact Int.mul_nonneg (by omega) (by omega)
  by_cases h : mqN1 M k t < tokUnit W - (M : Int) * (nano : Int)
  · rw [mqOffer_dropped M W k t h]
    unfold MWF mphi at *
    simp only
    exact ⟨f1, by omega, by omega, f2⟩
  · obtain ⟨u, hw⟩ := mqOffer_written M W k t h
    rw [hw]
    unfold MWF mphi at *
    simp only
    generalize mqN1 M k t = n1 at *
    generalize tokUnit W = U at *
    generalize (M : Int) * U = MU at *
    refine ⟨?_, by omega, ?_, by omega⟩
    · split <;> omega
    · split <;> omega

theorem mqCount_cons (M W : Nat) (k : Tok) (t : Nat) (ts : List Nat) :
    mqCount M W k (t :: ts) = wrote (mqOffer M W k t false).2 + mqCount M W (mqOffer M W k t false).1 ts := by
  rfl

theorem mq_sum (M W : Nat) : ∀ (ts : List Nat) (k : Tok), MWF k → Ordered k.stamp ts →
    MWF (mqRun M W k ts) ∧
    (mqCount M W k ts : Int) * tokUnit W + mphi M (mqRun M W k ts) ≤ mphi M k ∧
    (mqRun M W k ts).mx ≤ k.mx ∧
    (mqCount M W k ts = 0 → k.n ≤ (mqRun M W k ts).n) ∧
    (0 < mqCount M W k ts → -((M : Int) * (nano : Int)) ≤ (mqRun M W k ts).n) ∧
    (∀ e, (∀ t ∈ ts, t ≤ e) → k.stamp ≤ e → (mqRun M W k ts).stamp ≤ e) := by
  intro ts
  induction ts with
  | nil =>
    intro k hk _
    refine ⟨hk, by simp [mqRun, mqCount], by simp [mqRun], by simp [mqRun], by simp [mqCount], ?_⟩
    intro e _ h; exact h
  | cons t ts ih =>
    intro k hk ho
    obtain ⟨h1, h2⟩ := ho
    obtain ⟨s1, s2, s3, s4⟩ := mq_step M W k t hk h1
    have ho' : Ordered (mqOffer M W k t false).1.stamp ts := by rw [mqOffer_stamp]; exact h2
    obtain ⟨i1, i2, i3, i4, i5, i6⟩ := ih _ s1 ho'
    have hst := mqOffer_stamp M W k t false
    rw [mqCount_cons]
    simp only [mqRun]
    generalize (mqOffer M W k t false).1 = k' at *
    generalize (mqOffer M W k t false).2 = o at *
    generalize mqCount M W k' ts = c at *
    generalize mqRun M W k' ts = kend at *
    have hu : (0 : Int) ≤ tokUnit W := by unfold tokUnit nano; exact Int.mul_nonneg (by omega) (by omega)
    generalize tokUnit W = U at *
    cases o with
    | dropped =>
      simp only [wrote] at s2 s4 ⊢
      refine ⟨i1, ?_, by omega, ?_, ?_, ?_⟩
      · simp only [Nat.zero_add]; omega
      · intro hz; have := i4 (by omega); omega
      · intro hz; exact i5 (by omega)
      · intro e he hke
        exact i6 e (fun t' ht' => he t' (by simp [ht'])) (by rw [hst]; exact he t (by simp))
    | written u =>
      simp only [wrote] at s2 s4 ⊢
      refine ⟨i1, ?_, by omega, ?_, ?_, ?_⟩
      · have : (((1 + c : Nat)) : Int) * U = U + (c : Int) * U := by
          push_cast; rw [Int.add_mul, Int.one_mul]
        rw [this]; omega
      · intro hz; omega
      · intro _
        by_cases hc : 0 < c
        · exact i5 hc
        · have := i4 (by omega); omega
      · intro e he hke
        exact i6 e (fun t' ht' => he t' (by simp [ht'])) (by rw [hst]; exact he t (by simp))

theorem mqN1_via (M : Nat) (k : Tok) (s t : Nat) (h1 : k.stamp ≤ s) (h2 : s ≤ t) :
    mqN1 M ⟨mqN1 M k s, k.mx, s⟩ t = mqN1 M k t := by
  unfold mqN1
  simp only
  have e : (((t - k.stamp : Nat) : Int)) * (M : Int)
      = (((s - k.stamp : Nat) : Int)) * (M : Int) + (((t - s : Nat) : Int)) * (M : Int) := by
    rw [← Int.add_mul]; congr 1; omega
  rw [e]
  have p1 : (0 : Int) ≤ (((t - s : Nat) : Int)) * (M : Int) := Int.mul_nonneg (by omega) (by omega)
  omega

theorem mqOffer_via (M W : Nat) (k : Tok) (s t : Nat) (h1 : k.stamp ≤ s) (h2 : s ≤ t) :
    mqOffer M W ⟨mqN1 M k s, k.mx, s⟩ t false = mqOffer M W k t false := by
  have hv : min (mqN1 M k s + (((t - s : Nat) : Int)) * (M : Int)) k.mx
      = min (k.n + (((t - k.stamp : Nat) : Int)) * (M : Int)) k.mx := mqN1_via M k s t h1 h2
  unfold mqOffer
  simp only
  rw [hv]

/-- **MQTT allowance**: for a bucket state `k` reached in any way (forced writes included) and
    any later stretch of ordinary offers inside a window `(s, e]`, the number of frames written
    (not dropped) is at most the allowance for the window plus the bucket's cap plus the one-second
    debt: `count ≤ rate * (e - s) + max_tokens + rate` — in token units. -/
theorem mq_window_bound (M W : Nat) (k : Tok) (ts : List Nat) (s e : Nat) (hk : MWF k) (hmx : 0 ≤ k.mx)
    (hs : k.stamp ≤ s) (ho : Ordered s ts) (he : ∀ t ∈ ts, t ≤ e) (hse : s ≤ e) :
    (mqCount M W k ts : Int) * tokUnit W ≤ ((e - s : Nat) : Int) * (M : Int) + k.mx + (M : Int) * (nano : Int) := by
  have hpos : (0 : Int) ≤ ((e - s : Nat) : Int) * (M : Int) := Int.mul_nonneg (by omega) (by omega)
  have hpos2 : (0 : Int) ≤ (M : Int) * (nano : Int) := Int.mul_nonneg (by omega) (by omega)
  cases ts with
  | nil => simp only [mqCount, Int.natCast_zero, Int.zero_mul]; omega
  | cons t ts =>
    obtain ⟨o1, o2⟩ := ho
    -- replace k by the state topped up at s
    have hv := mqOffer_via M W k s t hs o1
    have hc : mqCount M W k (t :: ts) = mqCount M W ⟨mqN1 M k s, k.mx, s⟩ (t :: ts) := by
      rw [mqCount_cons, mqCount_cons, hv]
    obtain ⟨f1, _, _⟩ := mqN1_facts M k s hk hs
    have hk' : MWF (⟨mqN1 M k s, k.mx, s⟩ : Tok) := f1
    obtain ⟨_, m2, _, _, m5, m6⟩ := mq_sum M W (t :: ts) ⟨mqN1 M k s, k.mx, s⟩ hk' ⟨o1, o2⟩
    rw [hc]
    by_cases hz : 0 < mqCount M W ⟨mqN1 M k s, k.mx, s⟩ (t :: ts)
    · have m5' := m5 hz
      have m6' := m6 e he (by simpa using hse)
      unfold mphi at m2
      simp only at m2
      have hm : ((mqRun M W ⟨mqN1 M k s, k.mx, s⟩ (t :: ts)).stamp : Int) * (M : Int) ≤ (e : Int) * (M : Int) :=
        Int.mul_le_mul_of_nonneg_right (by omega) (by omega)
      have e1 : ((e - s : Nat) : Int) * (M : Int) = (e : Int) * (M : Int) - (s : Int) * (M : Int) := by
        rw [← Int.sub_mul]; congr 1; omega
      rw [e1]
      unfold MWF at hk'
      simp only at hk'
      omega
    · have : mqCount M W ⟨mqN1 M k s, k.mx, s⟩ (t :: ts) = 0 := by omega
      rw [this]; simp only [Int.natCast_zero, Int.zero_mul]; omega

/-! ### instantiation with the constants read from /repo, and non-vacuity -/

/-- the fill rate is 1 % of the deemed 38 400 bit/s and the bucket holds 60 s worth -/
theorem repo_rate_is_one_percent : Gen.dutyFillRate * 100 = 38400 ∧
    Gen.dutyCapacity = Gen.dutyFillRate * 60 ∧ Gen.dutyWindow = 60 := by decide

theorem repo_mqtt_allowance : Gen.mqttMaxTokens = 80 ∧ Gen.mqttTimeWindow = 60 := by decide

/-- the property for the serial gateway with the constants of the code (level unit: nano-bits) -/
theorem duty_window_total_repo (pre post : List Req) (s e : Nat) (hse : s ≤ e)
    (hpre : ∀ r ∈ pre, r.t ≤ s) (hpost : ∀ r ∈ post, s < r.t)
    (ht : Timely Gen.dutyFillRate (Gen.dutyCapacity * nano) ⟨(Gen.dutyCapacity * nano : Nat), 0⟩ (pre ++ post)) :
    winZ s e (pre ++ post) ≤ (e - s) * Gen.dutyFillRate + Gen.dutyCapacity * nano
      + sumZ (pre.filter (pendingAt s)) :=
  duty_window_total _ _ pre post s e hse hpre hpost ht

/-- non-vacuity: a concrete timely history with a sleeper — 70 frames of 350 bits offered at once
    drain the bucket (65.8 frames) and the last ones wait -/
def burst : List Req := (List.range 70).map fun i =>
  ⟨1, 350 * nano, 1 + (if i < 65 then 0 else (i - 64) * 1000000000)⟩

example : (admitAll 384 (23040 * nano) ⟨(23040 * nano : Nat), 0⟩ burst).lvl < 0 := by decide +kernel

example : (semRun Sem.init [.arrive 1, .arrive 2, .tick, .arrive 3, .tick, .tick]).out = [1, 2, 3] := by decide

example : (mqOffer 80 60 ⟨-(70 * nano), 80 * 60 * nano, 0⟩ 5 false).2 = .dropped := by decide +kernel

/-- **a caller that gives up while it waits changes nothing for the others**: the wrapper debits the
    bucket at admission and never credits it back, so the due times of the callers that stay are a
    sub-list of a non-decreasing list - whichever callers give up, whenever, the frames that are
    written keep the order in which they were offered (`keep` marks the callers that stay) -/
theorem dues_sorted_after_cancellations (R C : Nat) (rs : List Req) (b : Bucket) (h : Timely R C b rs)
    (stay : List Nat) (hs : stay.Sublist (dues R C b rs)) : stay.Pairwise (· ≤ ·) :=
  List.Pairwise.sublist hs (dues_sorted R C rs b h)

end Ramses.C11
