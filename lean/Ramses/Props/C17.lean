/-
  C17 — schedules survive the wire format: encode / fragment / decode is the identity.

  Model: Model/Sched.lean.  zlib enters only through the hypothesis
  `∀ b, z.decompress (z.compress b) = some b`.
-/
import Ramses.Model.Sched
import Ramses.Proofs.HexLemmas
import Ramses.Proofs.Sweep.CentiAll
namespace Ramses.C17
open Ramses

/-! ### the 20-byte record -/

theorem pack_unpack (idx dow tod val : Nat) (h1 : idx < 256) (h2 : dow < 256) (h3 : tod < 65536)
    (h4 : val < 65536) : structUnpack (structPack idx dow tod val) = some (idx, dow, tod, val) := by
  unfold structPack structUnpack
  simp only [Option.some.injEq, Prod.mk.injEq]
  refine ⟨by omega, by omega, by omega, by omega⟩

theorem structPack_length (idx dow tod val : Nat) : (structPack idx dow tod val).length = 20 := rfl

/-- every setpoint k/100 of the validator's range 5.00 … 35.00 packs to exactly k (no
    truncation): from the complete binary64 sweep of C04 -/
theorem setpoint_grid (k : Nat) (h : k ≤ 3500) : packSetpoint (divInt k 100) = k := by
  have := centi_all k (by omega)
  simpa [centiOk, packSetpoint] using this

/-! ### cutting into fragments -/

theorem cutGo_flatten {α} (k : Nat) (hk : 0 < k) (l : List α) (fuel : Nat) (hf : l.length < fuel) :
    (cutEvery.go k fuel l).flatten = l ∧ ∀ p ∈ cutEvery.go k fuel l, p.length ≤ k := by
  induction fuel generalizing l with
  | zero => omega
  | succ n ih =>
    unfold cutEvery.go
    split
    · rename_i h; subst h; simp
    · rename_i hne
      have hlen : (l.drop k).length < n := by
        have : l.length ≠ 0 := by intro h0; exact hne (List.eq_nil_of_length_eq_zero h0)
        simp only [List.length_drop]; omega
      obtain ⟨i1, i2⟩ := ih (l.drop k) hlen
      refine ⟨by simp [i1], ?_⟩
      intro p hp
      simp only [List.mem_cons] at hp
      rcases hp with hp | hp
      · rw [hp]; simp only [List.length_take]; omega
      · exact i2 p hp

/-- the fragments joined give back the blob, and none is longer than 82 hex characters -/
theorem cut_join {α} (k : Nat) (hk : 0 < k) (l : List α) :
    (cutEvery k l).flatten = l ∧ ∀ p ∈ cutEvery k l, p.length ≤ k := by
  unfold cutEvery
  rw [if_neg (by omega)]
  exact cutGo_flatten k hk l _ (by omega)

/-- **every fragment fits a single frame**: 7 header bytes + at most 41 fragment bytes ≤ 48 -/
theorem fragment_fits (z : Zlib) (s : Sched) (f : List Char) (hf : f ∈ toFragz z s) :
    7 + f.length / 2 ≤ 48 := by
  have := (cut_join 82 (by decide) (hexOfBytes (z.compress (records s).flatten))).2 f hf
  omega

/-- cutting a concatenation of equal-length records gives the records back -/
theorem cutGo_records {α} (k : Nat) (hk : 0 < k) (rs : List (List α)) (hrs : ∀ r ∈ rs, r.length = k)
    (fuel : Nat) (hf : rs.length < fuel) : cutEvery.go k fuel rs.flatten = rs := by
  induction rs generalizing fuel with
  | nil =>
    cases fuel with
    | zero => omega
    | succ n => simp [cutEvery.go]
  | cons r rs ih =>
    cases fuel with
    | zero => omega
    | succ n =>
      have hr : r.length = k := hrs r (by simp)
      have hne : ¬ ((r :: rs).flatten = []) := by
        simp only [List.flatten_cons]
        intro h
        have := (List.append_eq_nil_iff.mp h).1
        rw [this] at hr; simp at hr; omega
      unfold cutEvery.go
      rw [if_neg hne]
      simp only [List.flatten_cons]
      rw [List.take_left' hr, List.drop_left' hr]
      rw [ih (fun x hx => hrs x (by simp [hx])) n (by simp at hf; omega)]

theorem cut_records {α} (k : Nat) (hk : 0 < k) (rs : List (List α)) (hrs : ∀ r ∈ rs, r.length = k) :
    cutEvery k rs.flatten = rs := by
  unfold cutEvery
  rw [if_neg (by omega)]
  apply cutGo_records k hk rs hrs
  have : rs.length ≤ rs.flatten.length := by
    induction rs with
    | nil => simp
    | cons r rs ih =>
      have hr := hrs r (by simp)
      have := ih (fun x hx => hrs x (by simp [hx]))
      simp only [List.length_cons, List.flatten_cons, List.length_append]
      omega
  omega

/-! ### hex text of the blob -/

theorem bytesOfHex_hexOfBytes (bs : List Nat) (h : ∀ b ∈ bs, b < 256) :
    bytesOfHex (hexOfBytes bs) = some bs := by
  induction bs with
  | nil => rfl
  | cons b bs ih =>
    have hb : b < 256 := h b (by simp)
    have ih' := ih (fun x hx => h x (by simp [hx]))
    have e : hexOfBytes (b :: bs) = hexDigit (b / 16 % 16) :: hexDigit (b % 16) :: hexOfBytes bs := by
      simp [hexOfBytes, toHexW]
    rw [e]
    unfold bytesOfHex
    have hv : ofHex [hexDigit (b / 16 % 16), hexDigit (b % 16)] = some b := by
      have := ofHex_toHexW 2 b (by decide) (by simpa using hb)
      simpa [toHexW] using this
    rw [hv, ih']


/-! ### regrouping the records by day -/

def dayTuples (idx : Nat) (d : Day) : List (Nat × Nat × Nat × Nat) :=
  d.sps.map (fun sp => (idx, d.dow, sp.tod, sp.val))

def tuples (s : Sched) : List (Nat × Nat × Nat × Nat) := s.days.flatMap (dayTuples s.idx)

/-- records of the current day just accumulate -/
theorem fold_same_day (idx c : Nat) (sps : List SwitchPoint) (done : List Day) (acc : List SwitchPoint) :
    (sps.map (fun sp => (idx, c, sp.tod, sp.val))).foldl regroupStep (done, c, acc) =
      (done, c, sps.reverse ++ acc) := by
  induction sps generalizing acc with
  | nil => rfl
  | cons sp sps ih =>
    simp only [List.map_cons, List.foldl_cons]
    have : regroupStep (done, c, acc) (idx, c, sp.tod, sp.val) = (done, c, ⟨sp.tod, sp.val⟩ :: acc) := by
      simp [regroupStep]
    rw [this, ih]
    simp

/-- a later, non-empty day closes the current one -/
theorem fold_new_day (idx : Nat) (d : Day) (done : List Day) (cur : Nat) (acc : List SwitchPoint)
    (hd : d.dow > cur) (hne : d.sps ≠ []) :
    (dayTuples idx d).foldl regroupStep (done, cur, acc) =
      (done ++ [⟨cur, acc.reverse⟩], d.dow, d.sps.reverse) := by
  unfold dayTuples
  cases hs : d.sps with
  | nil => exact absurd hs hne
  | cons sp sps =>
    simp only [List.map_cons, List.foldl_cons]
    have : regroupStep (done, cur, acc) (idx, d.dow, sp.tod, sp.val) =
        (done ++ [⟨cur, acc.reverse⟩], d.dow, [⟨sp.tod, sp.val⟩]) := by
      simp [regroupStep, hd]
    rw [this, fold_same_day]
    simp

theorem fold_days (idx : Nat) (ds : List Day) (done : List Day) (cur : Nat) (acc : List SwitchPoint)
    (hgt : ∀ d ∈ ds, d.dow > cur) (hpw : ds.Pairwise (fun a b => a.dow < b.dow))
    (hne : ∀ d ∈ ds, d.sps ≠ []) :
    let st := (ds.flatMap (dayTuples idx)).foldl regroupStep (done, cur, acc)
    st.1 ++ [⟨st.2.1, st.2.2.reverse⟩] = done ++ [⟨cur, acc.reverse⟩] ++ ds := by
  induction ds generalizing done cur acc with
  | nil => simp
  | cons d ds ih =>
    simp only [List.flatMap_cons, List.foldl_append]
    rw [fold_new_day idx d done cur acc (hgt d (by simp)) (hne d (by simp))]
    have hpw' := List.pairwise_cons.1 hpw
    have := ih (done ++ [⟨cur, acc.reverse⟩]) d.dow d.sps.reverse
      (fun x hx => hpw'.1 x hx) hpw'.2 (fun x hx => hne x (by simp [hx]))
    simp only at this
    rw [this]
    simp

/-- **regrouping is exact** for seven ordered, non-empty days -/
theorem regroup_tuples (s : Sched) (h : s.WF = true) : regroup (tuples s) = s.days := by
  unfold Sched.WF at h
  simp only [Bool.and_eq_true, decide_eq_true_eq, List.all_eq_true, Bool.not_eq_true'] at h
  obtain ⟨⟨_, hdows⟩, hall⟩ := h
  cases hds : s.days with
  | nil => rw [hds] at hdows; simp at hdows
  | cons d0 ds =>
    rw [hds] at hdows hall
    simp only [List.map_cons, List.cons.injEq] at hdows
    obtain ⟨h0, hrest⟩ := hdows
    have hne : ∀ d ∈ d0 :: ds, d.sps ≠ [] := by
      intro d hd hnil
      have := (hall d hd).1
      rw [hnil] at this; simp at this
    unfold regroup tuples
    rw [hds]
    simp only [List.flatMap_cons, List.foldl_append]
    have e0 : (dayTuples s.idx d0).foldl regroupStep ([], 0, []) = ([], 0, d0.sps.reverse) := by
      unfold dayTuples
      rw [h0]
      have := fold_same_day s.idx 0 d0.sps [] []
      simpa using this
    rw [e0]
    have hgt : ∀ d ∈ ds, d.dow > 0 := by
      intro d hd
      have : d.dow ∈ ds.map (·.dow) := List.mem_map.2 ⟨d, hd, rfl⟩
      rw [hrest] at this
      simp at this; omega
    have hpw : ds.Pairwise (fun a b => a.dow < b.dow) := by
      have : (ds.map (·.dow)).Pairwise (· < ·) := by rw [hrest]; decide
      exact List.pairwise_map.1 this
    have := fold_days s.idx ds [] 0 d0.sps.reverse hgt hpw (fun d hd => hne d (by simp [hd]))
    simp only at this
    rw [this]
    simp only [List.reverse_reverse, List.nil_append, List.singleton_append, List.cons.injEq, and_true]
    cases d0
    simp only at h0
    subst h0
    rfl

theorem unpack_day (idx dow : Nat) (sps : List SwitchPoint) (hidx : idx < 256) (hdow : dow < 256)
    (hsp : ∀ sp ∈ sps, sp.tod < 65536 ∧ sp.val < 65536) :
    (sps.map (fun sp => structPack idx dow sp.tod sp.val)).mapM structUnpack =
      some (sps.map (fun sp => (idx, dow, sp.tod, sp.val))) := by
  induction sps with
  | nil => rfl
  | cons sp sps ih =>
    have hb := hsp sp (by simp)
    simp only [List.map_cons, List.mapM_cons]
    rw [pack_unpack idx dow sp.tod sp.val hidx hdow hb.1 hb.2]
    rw [ih (fun x hx => hsp x (by simp [hx]))]
    rfl

theorem unpack_days (idx : Nat) (days : List Day) (hidx : idx < 256) (hdow : ∀ d ∈ days, d.dow < 256)
    (hsp : ∀ d ∈ days, ∀ sp ∈ d.sps, sp.tod < 65536 ∧ sp.val < 65536) :
    (days.flatMap (fun d => d.sps.map (fun sp => structPack idx d.dow sp.tod sp.val))).mapM structUnpack =
      some (days.flatMap (dayTuples idx)) := by
  induction days with
  | nil => rfl
  | cons d ds ih =>
    simp only [List.flatMap_cons, List.mapM_append]
    rw [unpack_day idx d.dow d.sps hidx (hdow d (by simp)) (hsp d (by simp))]
    rw [ih (fun x hx => hdow x (by simp [hx])) (fun x hx => hsp x (by simp [hx]))]
    rfl

theorem unpack_records (s : Sched) (h : s.WF = true) :
    unpackAll (records s).flatten = some (tuples s) := by
  unfold Sched.WF at h
  simp only [Bool.and_eq_true, decide_eq_true_eq, List.all_eq_true, Bool.not_eq_true'] at h
  obtain ⟨⟨hidx, hdows⟩, hall⟩ := h
  unfold unpackAll
  have hlen : ∀ r ∈ records s, r.length = 20 := by
    intro r hr
    unfold records at hr
    simp only [List.mem_flatMap, List.mem_map] at hr
    obtain ⟨d, _, sp, _, rfl⟩ := hr
    rfl
  rw [cut_records 20 (by decide) (records s) hlen]
  have hdow : ∀ d ∈ s.days, d.dow < 256 := by
    intro d hd
    have : d.dow ∈ s.days.map (·.dow) := List.mem_map.2 ⟨d, hd, rfl⟩
    rw [hdows] at this; simp at this; omega
  exact unpack_days s.idx s.days hidx hdow (fun d hd sp hsp => (hall d hd).2 sp hsp)

/-- **schedule round trip**: any weekly schedule the validator accepts (seven ordered days, at
    least one switchpoint each, fields within their wire width; zone or hot water) converts to
    fragments and back to exactly the same schedule — for every zlib whose decompress inverts its
    compress -/
theorem schedule_roundtrip (z : Zlib) (hz : ∀ b, z.decompress (z.compress b) = some b)
    (hzb : ∀ b, ∀ x ∈ z.compress b, x < 256) (s : Sched) (h : s.WF = true) :
    fromFragz z (toFragz z s) = some s := by
  unfold fromFragz toFragz
  rw [(cut_join 82 (by decide) _).1]
  unfold bytesOfHexChars
  rw [bytesOfHex_hexOfBytes _ (hzb _)]
  simp only [hz]
  unfold schedOfRaw
  rw [unpack_records s h]
  have hreg := regroup_tuples s h
  -- the record list is not empty and its last record carries the schedule's own index
  have hne : tuples s ≠ [] ∧ ((tuples s).getLast?.map (·.1)).getD 0 = s.idx := by
    have hall : ∀ t ∈ tuples s, t.1 = s.idx := by
      intro t ht
      unfold tuples dayTuples at ht
      simp only [List.mem_flatMap, List.mem_map] at ht
      obtain ⟨d, _, sp, _, rfl⟩ := ht
      rfl
    have hne : tuples s ≠ [] := by
      intro hnil
      rw [hnil] at hreg
      unfold Sched.WF at h
      simp only [Bool.and_eq_true, decide_eq_true_eq] at h
      have := h.1.2
      rw [← hreg] at this
      simp [regroup, regroupStep] at this
    refine ⟨hne, ?_⟩
    cases hl : (tuples s).getLast? with
    | none => exact absurd (List.getLast?_eq_none_iff.1 hl) hne
    | some t =>
      have := hall t (List.mem_of_getLast? hl)
      simp [this]
  cases ht : tuples s with
  | nil => exact absurd ht hne.1
  | cons t ts =>
    simp only
    rw [← ht, hne.2, hreg]

/-! ### re-assembly from reply packets -/

/-- whatever `_update_payload_set` reports as the schedule is the decode of exactly the fragments
    it holds, with every slot filled — never something assembled from thin air -/
theorem reassembly_sound (z : Zlib) (set : PayloadSet) (p : FragMsg) (sc : Sched)
    (h : (updateSet z set p).2 = some sc) :
    p.total = set.length ∧ ((set.set (p.num - 1) (some p)).any (·.isNone)) = false ∧
    fromFragz z ((set.set (p.num - 1) (some p)).filterMap (fun x => x.map (·.frag))) = some sc := by
  unfold updateSet at h
  split at h
  · cases h
  · rename_i ht
    simp only at h
    split at h
    · cases h
    · rename_i hany
      split at h
      · rename_i s' hs'
        injection h with h
        subst h
        refine ⟨by simpa using ht, ?_, hs'⟩
        cases hb : (set.set (p.num - 1) (some p)).any (·.isNone)
        · rfl
        · exact absurd hb hany
      · cases h

/-- and when the slots hold the fragments of one schedule in their places, that schedule is what
    comes out (any arrival order, any repeats: only the final slot contents matter) -/
theorem reassembly_exact (z : Zlib) (hz : ∀ b, z.decompress (z.compress b) = some b)
    (hzb : ∀ b, ∀ x ∈ z.compress b, x < 256) (s : Sched) (hw : s.WF = true)
    (set : PayloadSet) (p : FragMsg) (ht : p.total = set.length)
    (hslots : (set.set (p.num - 1) (some p)).filterMap (fun x => x.map (·.frag)) = toFragz z s)
    (hfull : ((set.set (p.num - 1) (some p)).any (·.isNone)) = false) :
    (updateSet z set p).2 = some s := by
  unfold updateSet
  rw [if_neg (by simpa using ht)]
  simp only [hfull, Bool.false_eq_true, if_false, hslots, schedule_roundtrip z hz hzb s hw]

/-- non-vacuity: a schedule of seven days is well-formed and its records regroup to itself -/
example :
    let s : Sched := ⟨1, (List.range 7).map fun d => ⟨d, [⟨390, 2150⟩, ⟨1320, 1600⟩]⟩⟩
    s.WF = true ∧ regroup (tuples s) = s.days ∧ (records s).flatten.length = 280 := by decide +kernel

end Ramses.C17
