/-
  C03 — command builders emit valid frames of the advertised verb/code that decode back.

  Model: Model/Builders.lean (a core of CODE_API_MAP) over Model/Frame.lean (Command._from_attrs),
  Model/Codec.lean and the regenerated schema regexes.
-/
import Ramses.Model.Builders
import Ramses.Props.C02
import Ramses.Props.C04
namespace Ramses.C03
open Ramses

/-! ### the index guard -/

/-- `_check_idx` returns two upper-hex characters of a zone 00–0F or a domain F9/FA/FC, and
    refuses everything else -/
theorem checkIdx_sound (a : IdxArg) (i : List Char) (h : checkIdx a = .ok i) :
    ∃ n, i = fmtHex 2 n ∧ (n ≤ 15 ∨ n = 0xF9 ∨ n = 0xFA ∨ n = 0xFC) := by
  unfold checkIdx at h
  split at h
  · rename_i n
    split at h
    · rename_i hr
      injection h with h
      refine ⟨n.toNat, h.symm, ?_⟩
      omega
    · cases h
  · rename_i t
    simp only at h
    cases ho : ofHex (if t = "HW".toList then "FA".toList else t) with
    | none => rw [ho] at h; cases h
    | some n =>
      rw [ho] at h
      simp only at h
      split at h
      · rename_i hr
        injection h with h
        exact ⟨n, h.symm, hr⟩
      · cases h

theorem checkIdx_refuses (n : Int) (h : ¬ ((0 ≤ n ∧ n ≤ 15) ∨ n = 0xF9 ∨ n = 0xFA ∨ n = 0xFC)) :
    checkIdx (.int n) = .error .cmdInvalid := by
  unfold checkIdx; simp [h]

/-! ### what `Command._from_attrs` returns -/

theorem validAddr_len (a : List Char) (h : isValidAddr a = true) : a.length = 9 := by
  unfold isValidAddr at h
  simp only [Bool.or_eq_true, Bool.and_eq_true, decide_eq_true_eq] at h
  rcases h with h | h
  · rw [h]; rfl
  · exact h.1.1.1

/-- if the generic constructor succeeds, the command has exactly the verb, code and payload it
    was given, no sequence number, and a length field equal to the payload's byte count -/
theorem fromAttrs_fields (verb code payload a0 a1 a2 : List Char) (f : Frame)
    (hv : verb.length = 2) (hc : code.length = 4) (hp : payload.length / 2 < 1000)
    (h : fromAttrs verb code payload a0 a1 a2 none = .ok f) :
    f.verb = verb ∧ f.code = code ∧ f.payload = payload ∧ f.seqn = "---".toList ∧
    f.len = toDecW 3 (payload.length / 2) := by
  unfold fromAttrs at h
  have nv1 : ¬ (verb = ['I']) := by intro e; rw [e] at hv; simp at hv
  have nv2 : ¬ (verb = ['W']) := by intro e; rw [e] at hv; simp at hv
  simp only [nv1, nv2, if_false] at h
  split at h
  · cases h
  · rename_i r hr
    -- the three address slices are valid, hence 9 characters each
    have hval : ∃ b0 b1 b2, pktAddrs b0 b1 b2 = .ok r := ⟨_, _, _, hr⟩
    generalize hb0 : slice ((if a0 = [] then nonId else a0) ++ ' ' :: (if a1 = [] then nonId else a1) ++ ' ' ::
      (if a2 = [] then nonId else a2)) 0 9 = b0 at h hr
    generalize hb1 : slice ((if a0 = [] then nonId else a0) ++ ' ' :: (if a1 = [] then nonId else a1) ++ ' ' ::
      (if a2 = [] then nonId else a2)) 10 19 = b1 at h hr
    generalize hb2 : slice ((if a0 = [] then nonId else a0) ++ ' ' :: (if a1 = [] then nonId else a1) ++ ' ' ::
      (if a2 = [] then nonId else a2)) 20 29 = b2 at h hr
    have hlens : b0.length = 9 ∧ b1.length = 9 ∧ b2.length = 9 := by
      unfold pktAddrs at hr
      split at hr
      · cases hr
      · rename_i hv3
        have this : (isValidAddr b0 && isValidAddr b1 && isValidAddr b2) = true := by
          cases hh : (isValidAddr b0 && isValidAddr b1 && isValidAddr b2)
          · exact absurd (by simp [hh]) hv3
          · rfl
        simp only [Bool.and_eq_true] at this
        exact ⟨validAddr_len _ this.1.1, validAddr_len _ this.1.2, validAddr_len _ this.2⟩
    let g : Frame := ⟨verb, "---".toList, b0, b1, b2, code, fmtDec3 (payload.length / 2), payload⟩
    have hfd : fmtDec3 (payload.length / 2) = toDecW 3 (payload.length / 2) := by
      unfold fmtDec3; rw [if_pos hp]
    have hg : (verb ++ ' ' :: "---".toList ++ ' ' :: b0 ++ ' ' :: b1 ++ ' ' :: b2 ++ ' ' :: code ++ ' ' ::
        fmtDec3 (payload.length / 2) ++ ' ' :: payload) = printFrame g := rfl
    rw [hg] at h
    unfold parseCommand at h
    split at h
    · cases h
    · rename_i f' hf'
      split at h
      · cases h
      · injection h with h
        subst h
        have hcore := C02.accepted_core _ _ hf'
        have hfields : frameFields (printFrame g) = g :=
          (C02.fields_of_print g hv rfl hlens.1 hlens.2.1 hlens.2.2 hc (by rw [show g.len = fmtDec3 _ from rfl, hfd]; simp [toDecW])).1
        have : f' = g := by
          unfold parseFrame at hf'
          split at hf'; · cases hf'
          split at hf'; · cases hf'
          split at hf'; · cases hf'
          injection hf' with hf'
          rw [← hf', hfields]
        subst this
        exact ⟨rfl, rfl, rfl, rfl, hfd⟩


/-- ... and its first address field is the first nine characters of the joined addresses -/
theorem fromAttrs_a0 (verb code payload a0 a1 a2 : List Char) (f : Frame)
    (hv : verb.length = 2) (hc : code.length = 4) (hp : payload.length / 2 < 1000)
    (h : fromAttrs verb code payload a0 a1 a2 none = .ok f) :
    f.a0 = slice ((if a0 = [] then nonId else a0) ++ ' ' :: (if a1 = [] then nonId else a1) ++ ' ' ::
      (if a2 = [] then nonId else a2)) 0 9 := by
  unfold fromAttrs at h
  have nv1 : ¬ (verb = ['I']) := by intro e; rw [e] at hv; simp at hv
  have nv2 : ¬ (verb = ['W']) := by intro e; rw [e] at hv; simp at hv
  simp only [nv1, nv2, if_false] at h
  split at h
  · cases h
  · rename_i r hr
    -- the three address slices are valid, hence 9 characters each
    have hval : ∃ b0 b1 b2, pktAddrs b0 b1 b2 = .ok r := ⟨_, _, _, hr⟩
    generalize hb0 : slice ((if a0 = [] then nonId else a0) ++ ' ' :: (if a1 = [] then nonId else a1) ++ ' ' ::
      (if a2 = [] then nonId else a2)) 0 9 = b0 at h hr
    generalize hb1 : slice ((if a0 = [] then nonId else a0) ++ ' ' :: (if a1 = [] then nonId else a1) ++ ' ' ::
      (if a2 = [] then nonId else a2)) 10 19 = b1 at h hr
    generalize hb2 : slice ((if a0 = [] then nonId else a0) ++ ' ' :: (if a1 = [] then nonId else a1) ++ ' ' ::
      (if a2 = [] then nonId else a2)) 20 29 = b2 at h hr
    have hlens : b0.length = 9 ∧ b1.length = 9 ∧ b2.length = 9 := by
      unfold pktAddrs at hr
      split at hr
      · cases hr
      · rename_i hv3
        have this : (isValidAddr b0 && isValidAddr b1 && isValidAddr b2) = true := by
          cases hh : (isValidAddr b0 && isValidAddr b1 && isValidAddr b2)
          · exact absurd (by simp [hh]) hv3
          · rfl
        simp only [Bool.and_eq_true] at this
        exact ⟨validAddr_len _ this.1.1, validAddr_len _ this.1.2, validAddr_len _ this.2⟩
    let g : Frame := ⟨verb, "---".toList, b0, b1, b2, code, fmtDec3 (payload.length / 2), payload⟩
    have hfd : fmtDec3 (payload.length / 2) = toDecW 3 (payload.length / 2) := by
      unfold fmtDec3; rw [if_pos hp]
    have hg : (verb ++ ' ' :: "---".toList ++ ' ' :: b0 ++ ' ' :: b1 ++ ' ' :: b2 ++ ' ' :: code ++ ' ' ::
        fmtDec3 (payload.length / 2) ++ ' ' :: payload) = printFrame g := rfl
    rw [hg] at h
    unfold parseCommand at h
    split at h
    · cases h
    · rename_i f' hf'
      split at h
      · cases h
      · injection h with h
        subst h
        have hcore := C02.accepted_core _ _ hf'
        have hfields : frameFields (printFrame g) = g :=
          (C02.fields_of_print g hv rfl hlens.1 hlens.2.1 hlens.2.2 hc (by rw [show g.len = fmtDec3 _ from rfl, hfd]; simp [toDecW])).1
        have : f' = g := by
          unfold parseFrame at hf'
          split at hf'; · cases hf'
          split at hf'; · cases hf'
          split at hf'; · cases hf'
          injection hf' with hf'
          rw [← hf', hfields]
        subst this
        rfl


theorem fromAttrsDest_fields (verb dest code payload : List Char) (f : Frame)
    (hv : verb.length = 2) (hc : code.length = 4) (hp : payload.length / 2 < 1000)
    (h : fromAttrsDest verb dest code payload = .ok f) :
    f.verb = verb ∧ f.code = code ∧ f.payload = payload ∧ f.seqn = "---".toList ∧
    f.len = toDecW 3 (payload.length / 2) := by
  unfold fromAttrsDest at h
  split at h <;> exact fromAttrs_fields _ _ _ _ _ _ f hv hc hp h


/-- a command built by `from_attrs(verb, dest, code, payload)` is sent from the gateway placeholder 18:000730 -/
theorem fromAttrsDest_srcType (verb dest code payload : List Char) (f : Frame)
    (hv : verb.length = 2) (hc : code.length = 4) (hp : payload.length / 2 < 1000)
    (h : fromAttrsDest verb dest code payload = .ok f) : f.a0 = hgiId := by
  unfold fromAttrsDest at h
  split at h
  · have := fromAttrs_a0 _ _ _ _ _ _ f hv hc hp h
    rw [this]
    have e : (if hgiId = [] then nonId else hgiId) = hgiId := by decide
    rw [e]
    unfold slice
    have hl : hgiId.length = 9 := by decide
    rw [List.append_assoc, List.take_left' hl]; rfl
  · have := fromAttrs_a0 _ _ _ _ _ _ f hv hc hp h
    rw [this]
    have e : (if hgiId = [] then nonId else hgiId) = hgiId := by decide
    rw [e]
    unfold slice
    have hl : hgiId.length = 9 := by decide
    rw [List.append_assoc, List.take_left' hl]; rfl

/-! ### key: every modelled constructor builds the verb/code it is registered under -/

/-- the eight indexed requests (RQ|0004, 000A, 2349, 2309, 30C9, 12B0, 10A0, 1260) -/
theorem getIndexed_key (code suffix : String) (ctl : List Char) (idx : IdxArg) (f : Frame)
    (hc : code.toList.length = 4) (hs : suffix.toList.length ≤ 2)
    (h : getIndexed code suffix ctl idx = .ok f) :
    f.verb = vRQ ∧ f.code = code.toList ∧
    ∃ n, (n ≤ 15 ∨ n = 0xF9 ∨ n = 0xFA ∨ n = 0xFC) ∧ f.payload = fmtHex 2 n ++ suffix.toList := by
  unfold getIndexed at h
  split at h
  · cases h
  · rename_i i hi
    obtain ⟨n, hn, hr⟩ := checkIdx_sound idx i hi
    have hlen : (fmtHex 2 n).length = 2 := fmtHex_length 2 n (by decide) (by rcases hr with h|h|h|h <;> omega)
    have := fromAttrsDest_fields vRQ ctl code.toList (i ++ suffix.toList) f rfl hc
      (by rw [hn]; simp only [List.length_append, hlen]; omega) h
    exact ⟨this.1, this.2.1, n, hr, by rw [this.2.2.1, hn]⟩

theorem setZoneSetpoint_key (ctl : List Char) (idx : IdxArg) (sp : Bool × Dy) (f : Frame)
    (h : setZoneSetpoint ctl idx sp = .ok f) :
    f.verb = vW ∧ f.code = "2309".toList ∧
    ∃ n, (n ≤ 15 ∨ n = 0xF9 ∨ n = 0xFA ∨ n = 0xFC) ∧
      f.payload = fmtHex 2 n ++ C04.word (centiOfTemp sp.1 sp.2) ∧
      -(2 ^ 15) ≤ centiOfTemp sp.1 sp.2 ∧ centiOfTemp sp.1 sp.2 < 2 ^ 15 := by
  unfold setZoneSetpoint at h
  split at h
  · cases h
  · rename_i i hi
    split at h
    · cases h
    · rename_i hx hh
      obtain ⟨n, hn, hr⟩ := checkIdx_sound idx i hi
      obtain ⟨w1, w2, w3⟩ := C04.temp_no_wrap sp.1 sp.2 hx hh
      have hlen : (fmtHex 2 n).length = 2 := fmtHex_length 2 n (by decide) (by rcases hr with h|h|h|h <;> omega)
      have hwl : (C04.word (centiOfTemp sp.1 sp.2)).length = 4 := by
        unfold C04.word
        exact fmtHex_length 4 _ (by decide) (by split <;> omega)
      have := fromAttrsDest_fields vW ctl "2309".toList (i ++ hx) f rfl rfl
        (by rw [hn, w3]; simp only [List.length_append, hlen, hwl]; omega) h
      exact ⟨this.1, this.2.1, n, hr, by rw [this.2.2.1, hn, w3], w1, w2⟩

/-! ### accepted: the library's own schema regex matches what the constructors emit -/

def hexCls : Re := Re.cls [(48, 57), (65, 70)] false

theorem hexCls_deriv (c : Char) (h : isUpperHex c = true) : hexCls.deriv c = Re.eps := by
  unfold hexCls Re.deriv
  unfold isUpperHex at h
  simp only [Bool.or_eq_true, Bool.and_eq_true, decide_eq_true_eq] at h
  have : Re.inRanges c.toNat [(48, 57), (65, 70)] = true := by
    simp only [Re.inRanges, Bool.or_eq_true, Bool.and_eq_true, decide_eq_true_eq, Bool.or_false]
    omega
  simp [this]

/-- `[0-9A-F]{n}` matches every string of n upper-hex characters -/
theorem hexRep_match (n : Nat) (s : List Char) (hl : s.length = n) (hs : allB isUpperHex s = true) :
    (Re.rep hexCls n (some n)).fullMatch s = true := by
  induction n generalizing s with
  | zero =>
    have : s = [] := List.eq_nil_of_length_eq_zero hl
    subst this
    simp [Re.fullMatch, Re.nullable]
  | succ n ih =>
    match s, hl with
    | c :: cs, hl =>
      unfold allB at hs
      simp only [List.all_cons, Bool.and_eq_true] at hs
      simp only [Re.fullMatch, Re.deriv, hexCls_deriv c hs.1, Nat.add_sub_cancel]
      have : Re.mkSeq Re.eps (Re.rep hexCls n (some n)) = Re.rep hexCls n (some n) := rfl
      rw [this]
      exact ih cs (by simpa using hl) hs.2

/-- the W|2309 regex of the *generated* schema is `^0[0-9A-F]{5}$` … -/
theorem schema_W_2309 : schemaLookup "2309".toList vW =
    some [⟨Re.seq (Re.chr '0') (Re.rep hexCls 5 (some 5)), true⟩] := by decide

/-- … and it accepts `0` + any five upper-hex characters -/
theorem accepts_W_2309 (rest : List Char) (hl : rest.length = 5) (hs : allB isUpperHex rest = true) :
    ∃ pat, schemaLookup "2309".toList vW = some pat ∧ pat.matches ('0' :: rest) = true := by
  refine ⟨_, schema_W_2309, ?_⟩
  simp only [Pattern.matches, List.any_cons, List.any_nil, Bool.or_false, PatAlt.matches, if_true]
  have : (Re.seq (Re.chr '0') (Re.rep hexCls 5 (some 5))).fullMatch ('0' :: rest) = true := by
    simp only [Re.fullMatch, Re.deriv, Re.nullable, if_true]
    have : Re.mkSeq Re.eps (Re.rep hexCls 5 (some 5)) = Re.rep hexCls 5 (some 5) := rfl
    simp only [Bool.false_eq_true, if_false, this]
    exact hexRep_match 5 rest hl hs
  simp [this]

/-- every payload the 8 indexed requests emit for a zone 00–0F is accepted by the generated
    schema regex of its RQ|code (16 payloads x 8 codes, evaluated by the kernel) -/
def rqAccepted (code suffix : String) (n : Nat) : Bool :=
  match schemaLookup code.toList vRQ with
  | some pat => pat.matches (fmtHex 2 n ++ suffix.toList)
  | none => false

theorem zone_requests_accepted :
    ∀ cs ∈ [("0004", "00"), ("000A", ""), ("2349", ""), ("2309", ""), ("30C9", ""), ("12B0", "")],
      allIn 4 0 (rqAccepted cs.1 cs.2) = true := by decide +kernel

/-- the DHW requests are accepted for the two DHW indexes 00/01 … -/
theorem dhw_requests_accepted :
    ∀ c ∈ ["10A0", "1260"], rqAccepted c "" 0 = true ∧ rqAccepted c "" 1 = true := by decide +kernel

/-- … and (a recorded finding) for no other index the guard lets through -/
theorem dhw_idx_gt1_rejected_witness : rqAccepted "10A0" "" 2 = false ∧ rqAccepted "1260" "" 2 = false := by
  decide +kernel


/-! ### values: what was asked for is what the decoder reads back -/

/-- **W|2309 round trip**: for every zone 00–0F and every setpoint k/100 on the wire grid
    (0.00 … 327.66 °C, non-sentinel), `set_zone_setpoint` builds a W|2309 whose payload the
    generated regex accepts and whose decoded setpoint is exactly the value passed in -/
theorem setZoneSetpoint_roundtrip (ctl : List Char) (n : Nat) (hn : n ≤ 15) (k : Int)
    (hk0 : 0 ≤ k) (hk1 : k ≤ 32767) (hks : ¬ C04.sentinel k) (f : Frame)
    (h : setZoneSetpoint ctl (.int n) (false, divInt k.natAbs 100) = .ok f) :
    f.verb = vW ∧ f.code = "2309".toList ∧
    (∃ pat, schemaLookup f.code f.verb = some pat ∧ pat.matches f.payload = true) ∧
    parser f false = .ok (.dict [("setpoint", jsonOfTemp (tempOfCenti k))]) := by
  obtain ⟨hv, hc, m, hm, hp, _, _⟩ := setZoneSetpoint_key ctl (.int n) _ f h
  -- the index guard returned n itself
  have hmn : fmtHex 2 m = fmtHex 2 n := by
    unfold setZoneSetpoint checkIdx at h
    have hr : ((0 : Int) ≤ (n : Int) ∧ (n : Int) ≤ 15) ∨ (n : Int) = 0xF9 ∨ (n : Int) = 0xFA ∨ (n : Int) = 0xFC := by omega
    simp only [hr, if_true, Int.toNat_natCast] at h
    split at h
    · cases h
    · rename_i hx hh
      have := fromAttrsDest_fields vW ctl "2309".toList (fmtHex 2 n ++ hx) f rfl rfl (by
        have hl : (fmtHex 2 n).length = 2 := fmtHex_length 2 n (by decide) (by omega)
        obtain ⟨_, _, w3⟩ := C04.temp_no_wrap _ _ hx hh
        have hwl : (C04.word (centiOfTemp false (divInt k.natAbs 100))).length = 4 := by
          unfold C04.word; exact fmtHex_length 4 _ (by decide) (by split <;> omega)
        rw [w3]; simp only [List.length_append, hl, hwl]; omega) h
      have e := this.2.2.1
      rw [hp] at e
      have hl2 : (fmtHex 2 m).length = 2 := fmtHex_length 2 m (by decide) (by rcases hm with h|h|h|h <;> omega)
      have hl3 : (fmtHex 2 n).length = 2 := fmtHex_length 2 n (by decide) (by omega)
      exact (List.append_inj e (by rw [hl2, hl3])).1
  have hcent : centiOfTemp false (divInt k.natAbs 100) = k := by
    have := C04.centi_roundtrip k (by omega) hk1
    have hd : decide (k < 0) = false := by simp; omega
    rw [hd] at this; exact this
  rw [hmn, hcent] at hp
  have hword : C04.word k = toHexW 4 k.toNat := by
    unfold C04.word
    have : k ≥ 0 := hk0
    simp only [this, if_true]
    exact fmtHex_eq 4 _ (by decide) (by omega)
  have hidx : fmtHex 2 n = ['0', hexDigit n] := by
    rw [fmtHex_eq 2 n (by decide) (by omega)]
    have : n / 16 = 0 := by omega
    have h2 : n % 16 = n := by omega
    simp [toHexW, this, h2]
    decide
  refine ⟨hv, hc, ?_, ?_⟩
  · rw [hc, hv, hp, hidx]
    have := accepts_W_2309 (hexDigit n :: C04.word k)
      (by rw [hword]; simp [toHexW_length])
      (by unfold allB; rw [hword]
          simp only [List.all_cons, isUpperHex_hexDigit n (by omega), Bool.true_and]
          exact toHexW_allHex 4 _)
    simpa using this
  · unfold parser
    have hvq : ¬ (f.verb = vRQ) := by rw [hv]; decide
    simp only [hc, hp]
    have e1 : inS ["0009", "000A", "2309", "30C9", "2249", "22C9", "3150"] "2309".toList = true := by decide
    simp only [e1, Bool.true_and, Bool.false_eq_true, if_false]
    have c1 : ¬ ("2309".toList = s "0009") := by decide
    have c2 : ¬ ("2309".toList = s "000A") := by decide
    have c3 : "2309".toList = s "2309" := by decide
    simp only [c1, c2, c3, if_false, if_true, hvq, decide_false, Bool.false_and]
    have hdrop : (fmtHex 2 n ++ C04.word k).drop 2 = C04.word k := by
      exact List.drop_left' (fmtHex_length 2 n (by decide) (by omega))
    rw [hdrop]
    have hdec := C04.temp_enc_dec k (by omega) hk1 hks
    rw [C04.temp_encode k (by omega) hk1] at hdec
    simp only [Except.bind] at hdec
    simp only [jTemp, hdec, Except.map, bind, Except.bind, pure, Except.pure]
    rw [if_neg (by decide : ¬ (s "2309" = s "0009")), if_neg (by decide : ¬ (s "2309" = s "000A"))]
    simp

end Ramses.C03
