/-
  C17 (continuation) — one `Schedule` object over an edit of the schedule it holds.

  The object holds *anything* (the fragments and the decoded schedule of an earlier version, a
  half-filled set, a set of another length); then the reply packets of schedule `s` are received:
  every fragment, twice over, in any order and with any repeats.  It reports `s` - whatever zlib
  makes of a mixture of old and new fragments on the way (it may even decode).

  `feed` is the passive path of `Schedule._handle_msg`: `_update_payload_set` on the set held, and
  `_full_schedule` replaced when (and only when) that step decoded a schedule.
  One pass is not enough: the first new fragment that disagrees with the old set empties it, and the
  fragments before it are gone until they are repeated (harness: c17 `reassembly.edited`).
-/
import Ramses.Props.C17
namespace Ramses.C17E
open Ramses Ramses.C17

abbrev St := PayloadSet × Option Sched

/-- `Schedule._handle_msg` for an RP|0404 carrying a fragment (Model/Sched.lean) -/
abbrev feed (z : Zlib) (st : St) (p : FragMsg) : St := feedMsg z st p

/-- the reply packet for fragment `i` (0-based) of the fragment list `fb` -/
def msgOf (fb : List (List Char)) (i : Nat) : FragMsg := ⟨i + 1, fb.length, fb.getD i []⟩

/-- every slot named in `I` is empty or holds the new version's fragment for that slot -/
def NewOnly (fb : List (List Char)) (I : Nat → Prop) (set : PayloadSet) : Prop :=
  set.length = fb.length ∧ ∀ i, i < fb.length → I i → set[i]? = some none ∨ set[i]? = some (some (msgOf fb i))

theorem initSet_get (fb : List (List Char)) (j i : Nat) (hj : j < fb.length) (hi : i < fb.length) :
    (initSet (msgOf fb j))[i]? = if j = i then some (some (msgOf fb j)) else some none := by
  simp only [initSet, msgOf, Nat.add_sub_cancel]
  rw [List.getElem?_set]
  by_cases h : j = i
  · subst h; simp [hj]
  · simp [h, List.getElem?_replicate, hi]

theorem initSet_length (fb : List (List Char)) (j : Nat) : (initSet (msgOf fb j)).length = fb.length := by
  simp [initSet, msgOf]

theorem set_get (set : PayloadSet) (fb : List (List Char)) (j i : Nat) (hl : set.length = fb.length) (hj : j < fb.length) :
    (set.set ((msgOf fb j).num - 1) (some (msgOf fb j)))[i]? = if j = i then some (some (msgOf fb j)) else set[i]? := by
  have e : (msgOf fb j).num - 1 = j := by simp [msgOf]
  rw [e, List.getElem?_set]
  by_cases h : j = i
  · subst h; simp [hl, hj]
  · simp [h]

/-- one step keeps the slots seen so far new-or-empty, and adds the slot of this message -/
theorem step_newOnly (z : Zlib) (fb : List (List Char)) (I : Nat → Prop) (set : PayloadSet) (j : Nat) (hj : j < fb.length)
    (h : NewOnly fb I set) : NewOnly fb (fun i => I i ∨ i = j) (updateSet z set (msgOf fb j)).1 := by
  obtain ⟨hl, hs⟩ := h
  have hinit : NewOnly fb (fun i => I i ∨ i = j) (initSet (msgOf fb j)) := by
    refine ⟨initSet_length fb j, ?_⟩
    intro i hi _
    rw [initSet_get fb j i hj hi]
    by_cases e : j = i
    · subst e; simp
    · simp [e]
  have hset : NewOnly fb (fun i => I i ∨ i = j) (set.set ((msgOf fb j).num - 1) (some (msgOf fb j))) := by
    refine ⟨by simp [hl], ?_⟩
    intro i hi hI
    rw [set_get set fb j i hl hj]
    by_cases e : j = i
    · subst e; simp
    · simp only [e, if_false]
      rcases hI with hI | hI
      · exact hs i hi hI
      · exact absurd hI.symm e
  unfold updateSet
  split
  · exact hinit
  · simp only
    split
    · exact hset
    · split
      · exact hset
      · exact hinit

/-- the first step from any state at all: the set has the new length afterwards -/
theorem first_step (z : Zlib) (fb : List (List Char)) (set : PayloadSet) (j : Nat) (hj : j < fb.length) :
    NewOnly fb (fun i => i = j) (updateSet z set (msgOf fb j)).1 := by
  by_cases hl : set.length = fb.length
  · have := step_newOnly z fb (fun _ => False) set j hj ⟨hl, fun _ _ h => absurd h id⟩
    exact ⟨this.1, fun i hi hI => this.2 i hi (Or.inr hI)⟩
  · unfold updateSet
    have : (msgOf fb j).total ≠ set.length := by simpa [msgOf] using fun e => hl e.symm
    rw [if_pos this]
    refine ⟨initSet_length fb j, ?_⟩
    intro i hi hI
    rw [initSet_get fb j i hj hi]
    simp [hI]

/-- after a run of messages every slot named in the run is new-or-empty -/
theorem run_newOnly (z : Zlib) (fb : List (List Char)) (l : List Nat) : ∀ (I : Nat → Prop) (st : St), (∀ i ∈ l, i < fb.length) →
    NewOnly fb I st.1 → NewOnly fb (fun i => I i ∨ i ∈ l) ((l.map (msgOf fb)).foldl (feed z) st).1 := by
  induction l with
  | nil => intro I st _ h; exact ⟨h.1, fun i hi hI => h.2 i hi (by simpa using hI)⟩
  | cons j r ih =>
    intro I st hlt h
    have hj := hlt j (by simp)
    have h1 := step_newOnly z fb I st.1 j hj h
    have := ih (fun i => I i ∨ i = j) (feed z st (msgOf fb j)) (fun i hi => hlt i (by simp [hi])) h1
    simp only [List.map_cons, List.foldl_cons]
    refine ⟨this.1, fun i hi hI => this.2 i hi ?_⟩
    rcases hI with hI | hI
    · exact Or.inl (Or.inl hI)
    · rcases List.mem_cons.mp hI with e | e
      · exact Or.inl (Or.inr e)
      · exact Or.inr e

/-- a set whose every slot holds its new fragment *is* the new version's fragment list -/
theorem full_new (fb : List (List Char)) (set : PayloadSet) (hl : set.length = fb.length)
    (h : ∀ i, i < fb.length → set[i]? = some (some (msgOf fb i))) :
    set.any (·.isNone) = false ∧ set.filterMap (fun x => x.map (·.frag)) = fb := by
  have e : set = (List.range fb.length).map (fun i => some (msgOf fb i)) := by
    apply List.ext_getElem?
    intro i
    by_cases hi : i < fb.length
    · rw [h i hi]; simp [hi]
    · have h1 : set[i]? = none := by simp [hl]; omega
      simp [h1, hi]
  constructor
  · rw [e]; simp
  · rw [e, List.filterMap_map]
    have hf : ((fun x : Option FragMsg => x.map (·.frag)) ∘ fun i => some (msgOf fb i)) = (some ∘ fun i => fb[i]?.getD []) := by
      funext i; simp [msgOf, List.getD_eq_getElem?_getD]
    rw [hf, List.filterMap_eq_map]
    apply List.ext_getElem?
    intro i
    by_cases hi : i < fb.length
    · simp [hi]
    · have : fb[i]? = none := by simp; omega
      simp [hi, this]

/-- in a new-or-empty set, "no empty slot" means every slot holds its new fragment -/
theorem newOnly_full (fb : List (List Char)) (set : PayloadSet) (h : NewOnly fb (fun _ => True) set)
    (hf : set.any (·.isNone) = false) : ∀ i, i < fb.length → set[i]? = some (some (msgOf fb i)) := by
  intro i hi
  rcases h.2 i hi trivial with e | e
  · exfalso
    have hm : (none : Option FragMsg) ∈ set := List.mem_of_getElem? e
    have : set.any (·.isNone) = true := List.any_eq_true.mpr ⟨none, hm, rfl⟩
    rw [hf] at this; cases this
  · exact e

section pass2
variable (z : Zlib) (hz : ∀ b, z.decompress (z.compress b) = some b) (hzb : ∀ b, ∀ x ∈ z.compress b, x < 256)
variable (s : Sched) (hw : s.WF = true)

/-- the second pass: the set is new-or-empty throughout, is never emptied again, the slots fed stay
    filled, and as soon as a step leaves it full the schedule held is `s` - and stays `s` -/
structure P2 (J : Nat → Prop) (st : St) : Prop where
  newOnly : NewOnly (toFragz z s) (fun _ => True) st.1
  filled : ∀ i, i < (toFragz z s).length → J i → st.1[i]? = some (some (msgOf (toFragz z s) i))
  held : st.1.any (·.isNone) = false → st.2 = some s

include hz hzb hw in
theorem p2_step (J : Nat → Prop) (st : St) (j : Nat) (hj : j < (toFragz z s).length) (hJ : ∀ i, J i → st.1[i]? = some (some (msgOf (toFragz z s) i)) ∨ True)
    (h : NewOnly (toFragz z s) (fun _ => True) st.1)
    (hfill : ∀ i, i < (toFragz z s).length → J i → st.1[i]? = some (some (msgOf (toFragz z s) i)))
    (hheld : st.2 = some s ∨ True) :
    P2 z s (fun i => J i ∨ i = j) (feed z st (msgOf (toFragz z s) j)) ∧
    (st.2 = some s → (feed z st (msgOf (toFragz z s) j)).2 = some s) := by
  have hl := h.1
  -- the set after writing the slot
  have hset : NewOnly (toFragz z s) (fun _ => True) (st.1.set ((msgOf (toFragz z s) j).num - 1) (some (msgOf (toFragz z s) j))) := by
    refine ⟨by simp [hl], ?_⟩
    intro i hi _
    rw [set_get st.1 _ j i hl hj]
    by_cases e : j = i
    · subst e; simp
    · simp only [e, if_false]; exact h.2 i hi trivial
  have hsetfill : ∀ i, i < (toFragz z s).length → (J i ∨ i = j) →
      (st.1.set ((msgOf (toFragz z s) j).num - 1) (some (msgOf (toFragz z s) j)))[i]? = some (some (msgOf (toFragz z s) i)) := by
    intro i hi hI
    rw [set_get st.1 _ j i hl hj]
    by_cases e : j = i
    · subst e; simp
    · simp only [e, if_false]
      rcases hI with hI | hI
      · exact hfill i hi hI
      · exact absurd hI.symm e
  have htot : ¬ ((msgOf (toFragz z s) j).total ≠ st.1.length) := by simp [msgOf, hl]
  by_cases hany : (st.1.set ((msgOf (toFragz z s) j).num - 1) (some (msgOf (toFragz z s) j))).any (·.isNone) = true
  · -- still a gap: nothing decoded, the set is the written one
    have e : updateSet z st.1 (msgOf (toFragz z s) j) = (st.1.set ((msgOf (toFragz z s) j).num - 1) (some (msgOf (toFragz z s) j)), none) := by
      unfold updateSet; rw [if_neg htot]; simp only [hany, if_true]
    refine ⟨⟨by simp only [feed, feedMsg, e]; exact hset, by simp only [feed, feedMsg, e]; exact hsetfill, ?_⟩, ?_⟩
    · intro hf; simp only [feed, feedMsg, e] at hf; rw [hany] at hf; cases hf
    · intro hs; simp only [feed, feedMsg, e]; exact hs
  · -- full: it is the new version's fragment list, and that decodes to `s`
    have hf : (st.1.set ((msgOf (toFragz z s) j).num - 1) (some (msgOf (toFragz z s) j))).any (·.isNone) = false := by
      cases hb : (st.1.set ((msgOf (toFragz z s) j).num - 1) (some (msgOf (toFragz z s) j))).any (·.isNone)
      · rfl
      · exact absurd hb hany
    have hall := newOnly_full _ _ hset hf
    have hfr := (full_new _ _ hset.1 hall).2
    have e : updateSet z st.1 (msgOf (toFragz z s) j) = (st.1.set ((msgOf (toFragz z s) j).num - 1) (some (msgOf (toFragz z s) j)), some s) := by
      unfold updateSet; rw [if_neg htot]
      simp only [hf, Bool.false_eq_true, if_false, hfr, schedule_roundtrip z hz hzb s hw]
    refine ⟨⟨by simp only [feed, feedMsg, e]; exact hset, by simp only [feed, feedMsg, e]; exact hsetfill, ?_⟩, ?_⟩
    · intro _; simp only [feed, feedMsg, e]
    · intro _; simp only [feed, feedMsg, e]

include hz hzb hw in
theorem p2_run (l : List Nat) : ∀ (J : Nat → Prop) (st : St), (∀ i ∈ l, i < (toFragz z s).length) → P2 z s J st →
    P2 z s (fun i => J i ∨ i ∈ l) ((l.map (msgOf (toFragz z s))).foldl (feed z) st) := by
  induction l with
  | nil => intro J st _ h; exact ⟨h.newOnly, fun i hi hI => h.filled i hi (by simpa using hI), h.held⟩
  | cons j r ih =>
    intro J st hlt h
    have hj := hlt j (by simp)
    have h1 := (p2_step z hz hzb s hw J st j hj (fun _ _ => Or.inr trivial) h.newOnly h.filled (Or.inr trivial)).1
    have := ih (fun i => J i ∨ i = j) (feed z st (msgOf (toFragz z s) j)) (fun i hi => hlt i (by simp [hi])) h1
    simp only [List.map_cons, List.foldl_cons]
    refine ⟨this.newOnly, fun i hi hI => this.filled i hi ?_, this.held⟩
    rcases hI with hI | hI
    · exact Or.inl (Or.inl hI)
    · rcases List.mem_cons.mp hI with e | e
      · exact Or.inl (Or.inr e)
      · exact Or.inr e

include hz hzb hw in
/-- the first step of the second pass establishes `P2` (whatever was held before) -/
theorem p2_first (st : St) (j : Nat) (hj : j < (toFragz z s).length) (h : NewOnly (toFragz z s) (fun _ => True) st.1) :
    P2 z s (fun i => i = j) (feed z st (msgOf (toFragz z s) j)) := by
  have := (p2_step z hz hzb s hw (fun _ => False) st j hj (fun _ h => absurd h id) h (fun _ _ h => absurd h id) (Or.inr trivial)).1
  exact ⟨this.newOnly, fun i hi hI => this.filled i hi (Or.inr hI), this.held⟩

include hz hzb hw in
/-- **Two passes of the new version's packets, in any order with any repeats, from any state:
    the schedule reported is the new version.** -/
theorem edited_two_passes (st : St) (l1 l2 : List Nat)
    (hn : 0 < (toFragz z s).length)
    (b1 : ∀ i ∈ l1, i < (toFragz z s).length) (b2 : ∀ i ∈ l2, i < (toFragz z s).length)
    (c1 : ∀ i, i < (toFragz z s).length → i ∈ l1) (c2 : ∀ i, i < (toFragz z s).length → i ∈ l2) :
    (((l1 ++ l2).map (msgOf (toFragz z s))).foldl (feed z) st).2 = some s := by
  -- pass 1: every slot ends new-or-empty
  obtain ⟨j1, r1, rfl⟩ : ∃ j r, l1 = j :: r := by
    cases l1 with
    | nil => exact absurd (c1 0 hn) (by simp)
    | cons j r => exact ⟨j, r, rfl⟩
  have hj1 := b1 j1 (by simp)
  have f1 := first_step z (toFragz z s) st.1 j1 hj1
  have n1 := run_newOnly z (toFragz z s) r1 (fun i => i = j1) (feed z st (msgOf (toFragz z s) j1)) (fun i hi => b1 i (by simp [hi])) f1
  have n1' : NewOnly (toFragz z s) (fun _ => True) (((j1 :: r1).map (msgOf (toFragz z s))).foldl (feed z) st).1 := by
    simp only [List.map_cons, List.foldl_cons]
    refine ⟨n1.1, fun i hi _ => n1.2 i hi ?_⟩
    rcases List.mem_cons.mp (c1 i hi) with e | e
    · exact Or.inl e
    · exact Or.inr e
  -- pass 2
  obtain ⟨j2, r2, rfl⟩ : ∃ j r, l2 = j :: r := by
    cases l2 with
    | nil => exact absurd (c2 0 hn) (by simp)
    | cons j r => exact ⟨j, r, rfl⟩
  have hj2 := b2 j2 (by simp)
  have p0 := p2_first z hz hzb s hw _ j2 hj2 n1'
  have p := p2_run z hz hzb s hw r2 (fun i => i = j2) _ (fun i hi => b2 i (by simp [hi])) p0
  rw [List.map_append, List.foldl_append]
  simp only [List.map_cons, List.foldl_cons] at p ⊢
  apply p.held
  have hall : ∀ i, i < (toFragz z s).length → _ := fun i hi => p.filled i hi (by
    rcases List.mem_cons.mp (c2 i hi) with e | e
    · exact Or.inl e
    · exact Or.inr e)
  exact (full_new _ _ p.newOnly.1 hall).1

end pass2

/-- a stand-in codec with a checksum: the payload followed by the sum of its bytes -/
def zsum : Zlib :=
  ⟨fun b => b ++ [b.foldl (· + ·) 0 % 256],
   fun b => match b.getLast? with
     | none => none
     | some c => if b.dropLast.foldl (· + ·) 0 % 256 = c then some b.dropLast else none⟩

/-- one switchpoint a day at 06:30; Thursday's setpoint is `v` -/
def week (v : Nat) : Sched := ⟨1, (List.range 7).map fun d => ⟨d, [⟨390, if d = 3 then v else 2000⟩]⟩⟩

/-- non-vacuity - and why one pass is not enough: the object holds last week's schedule (four
    fragments); Thursday is edited (fragments 2 and 4 change); after one in-order pass of the new
    packets it still reports the old schedule (the set was emptied at fragment 2, fragment 1 is
    missing), after the second pass the new one -/
example :
    let s0 := week 1500
    let s := week 1600
    let fb0 := toFragz zsum s0
    let fb := toFragz zsum s
    let st0 : St := ((List.range fb0.length).map (fun i => some (msgOf fb0 i)), some s0)
    let pass := (List.range fb.length).map (msgOf fb)
    (fb.length = 4 ∧ s.WF = true) ∧ ((pass.foldl (feed zsum) st0).2 == some s0) = true ∧
      (((pass ++ pass).foldl (feed zsum) st0).2 == some s) = true := by decide +kernel

end Ramses.C17E
