/-
  C06 — request and reply correlate: echo/reply headers match, distinct contexts differ.

  Model: Model/Header.lean (pkt_header, _ctx, _pkt_idx, _has_array, _has_ctl over the generated
  tables) and Model/Match.lean (the three predicates of WantEcho / WantRply).
-/
import Ramses.Model.Match
import Ramses.Proofs.ListLemmas
namespace Ramses.C06
open Ramses

/-- the text of a header: `code|verb|device[|ctx]` -/
def hdrText (code verb dev : List Char) (ctx : Option (List Char)) : List Char :=
  match ctx with
  | none => joinBar [code, verb, dev]
  | some c => joinBar [code, verb, dev] ++ '|' :: c

/-- **headers are injective**: two headers are the same text only if code, verb, device and
    context all agree — so packets that differ in any one of them are never confused -/
theorem hdrText_inj (c v d c' v' d' : List Char) (x x' : Option (List Char))
    (hc : c.length = 4) (hv : v.length = 2) (hd : d.length = 9)
    (hc' : c'.length = 4) (hv' : v'.length = 2) (hd' : d'.length = 9)
    (h : hdrText c v d x = hdrText c' v' d' x') : c = c' ∧ v = v' ∧ d = d' ∧ x = x' := by
  obtain ⟨c0, c1, c2, c3, rfl⟩ := len4 c hc
  obtain ⟨v0, v1, rfl⟩ := len2 v hv
  obtain ⟨d0, d1, d2, d3, d4, d5, d6, d7, d8, rfl⟩ := len9 d hd
  obtain ⟨e0, e1, e2, e3, rfl⟩ := len4 c' hc'
  obtain ⟨w0, w1, rfl⟩ := len2 v' hv'
  obtain ⟨f0, f1, f2, f3, f4, f5, f6, f7, f8, rfl⟩ := len9 d' hd'
  cases x <;> cases x' <;> simp [hdrText, joinBar, joinSep] at h ⊢ <;> simp_all

/-- which device id a (non-1FC9) transmit header names -/
def hdrDev (f : Frame) : List Char :=
  if f.verb = vI || f.verb = vRP || f.src = f.dst then f.src else f.dst

/-- the context part of a header, from a `_ctx` value -/
def ctxPart : Py Idx → Py (Option (List Char))
  | .ok (.str c) => .ok (some c)
  | .ok _ => .ok none
  | .error .assertionError => .ok none
  | .error e => .error e

/-- shape of every transmit header (codes other than 1FC9) -/
theorem tx_form (f : Frame) (h : isCode f.core "1FC9" = false) :
    txHeader f = (ctxPart (ctxFirst f.core)).map (hdrText f.code f.verb (hdrDev f)) := by
  unfold txHeader pktHeader pktHeaderWith hdrDev
  simp only [h, Bool.false_eq_true, if_false]
  by_cases hv : (f.verb = vI || f.verb = vRP || f.src = f.dst) = true
  · simp only [hv, if_true]
    generalize ctxFirst f.core = cx
    rcases cx with e | i
    · cases e <;> rfl
    · cases i <;> rfl
  · simp only [hv, if_false]
    generalize ctxFirst f.core = cx
    rcases cx with e | i
    · cases e <;> rfl
    · cases i <;> rfl

/-- shape of every expected-reply header (codes other than 1FC9) -/
theorem rx_form (f : Frame) (h : isCode f.core "1FC9" = false) (h1 : f.verb ≠ vI) (h2 : f.verb ≠ vRP)
    (h3 : f.src ≠ f.dst) (t : List Char) (ht : txHeader f = .ok t) :
    rxHeader f = (ctxPart (ctxLater f.core)).map
      (fun c => some (hdrText f.code (if f.verb = vRQ then vRP else vI) f.dst c)) := by
  unfold rxHeader
  rw [ht]
  unfold pktHeaderWith
  simp only [h, Bool.false_eq_true, if_false, if_true]
  have : (f.verb = vI || f.verb = vRP || f.src = f.dst) = false := by simp [h1, h2, h3]
  simp only [this, Bool.false_eq_true, if_false]
  generalize ctxLater f.core = cx
  rcases cx with e | i
  · cases e <;> rfl
  · cases i <;> rfl

/-- **soundness of reply matching**: if a packet's header equals the expected-reply header of a
    request (codes other than 1FC9), then the packet has the request's code, the answering
    verb, comes from the addressed device, and carries the same context -/
theorem reply_header_sound (q r : Frame) (hq : isCode q.core "1FC9" = false) (hr : isCode r.core "1FC9" = false)
    (hq1 : q.verb ≠ vI) (hq2 : q.verb ≠ vRP) (hq3 : q.src ≠ q.dst)
    (lq : q.code.length = 4 ∧ q.dst.length = 9) (lr : r.code.length = 4 ∧ r.verb.length = 2 ∧ (hdrDev r).length = 9)
    (h : List Char) (hrx : rxHeader q = .ok (some h)) (htx : txHeader r = .ok h) :
    r.code = q.code ∧ r.verb = (if q.verb = vRQ then vRP else vI) ∧ hdrDev r = q.dst ∧
      ctxPart (ctxFirst r.core) = ctxPart (ctxLater q.core) := by
  have hqt : ∃ t, txHeader q = .ok t := by
    unfold rxHeader at hrx
    split at hrx
    · cases hrx
    · exact ⟨_, by assumption⟩
  obtain ⟨t, ht⟩ := hqt
  rw [rx_form q hq hq1 hq2 hq3 t ht] at hrx
  rw [tx_form r hr] at htx
  generalize ctxPart (ctxFirst r.core) = cr at *
  generalize ctxPart (ctxLater q.core) = cq at *
  rcases cr with e | xr
  · cases htx
  rcases cq with e | xq
  · cases hrx
  simp only [Except.map] at hrx htx
  injection hrx with hrx
  injection hrx with hrx
  injection htx with htx
  have hv : (if q.verb = vRQ then vRP else vI).length = 2 := by split <;> rfl
  have := hdrText_inj r.code r.verb (hdrDev r) q.code (if q.verb = vRQ then vRP else vI) q.dst xr xq
    lr.1 lr.2.1 lr.2.2 lq.1 hv lq.2 (by rw [htx, hrx])
  obtain ⟨a, b, c, d⟩ := this
  exact ⟨a, b, c, by rw [d]⟩

/-- **completeness of reply matching**: the answering verb, from the addressed device, same code
    and same context ⇒ the packet's header *is* the expected-reply header -/
theorem reply_header_complete (q r : Frame) (hq : isCode q.core "1FC9" = false) (hr : isCode r.core "1FC9" = false)
    (hq1 : q.verb ≠ vI) (hq2 : q.verb ≠ vRP) (hq3 : q.src ≠ q.dst)
    (t : List Char) (ht : txHeader q = .ok t)
    (hcode : r.code = q.code) (hverb : r.verb = (if q.verb = vRQ then vRP else vI))
    (hdev : r.src = q.dst) (c : Option (List Char))
    (hcr : ctxPart (ctxFirst r.core) = .ok c) (hcq : ctxPart (ctxLater q.core) = .ok c) :
    ∃ h, rxHeader q = .ok (some h) ∧ txHeader r = .ok h := by
  refine ⟨hdrText q.code (if q.verb = vRQ then vRP else vI) q.dst c, ?_, ?_⟩
  · rw [rx_form q hq hq1 hq2 hq3 t ht, hcq]; rfl
  · rw [tx_form r hr, hcr]
    have : hdrDev r = q.dst := by
      unfold hdrDev
      have : (r.verb = vI || r.verb = vRP) = true := by
        rw [hverb]; split <;> decide
      simp [this, hdev]
    simp only [Except.map, this, hcode, hverb]

/-- **the echo is recognised whatever real id the gateway substitutes**: a transmit header
    depends on the source only through its type and through "source = destination"; so for a
    request (RQ/W to another device) any two frames with the same verb, code, payload,
    destination and source *type* have the same header -/
theorem echo_header_invariant (q e : Frame) (hcore : e.core = q.core)
    (hv : q.verb = vRQ ∨ q.verb = vW) (hne : q.src ≠ q.dst) :
    txHeader e = txHeader q := by
  have hverb : e.verb = q.verb := congrArg HCore.verb hcore
  have hcode : e.code = q.code := congrArg HCore.code hcore
  have hdst : e.dst = q.dst := congrArg HCore.dst hcore
  have hsame : decide (e.src = e.dst) = decide (q.src = q.dst) := congrArg HCore.same hcore
  have hne' : e.src ≠ e.dst := by
    intro h
    have : decide (q.src = q.dst) = true := by rw [← hsame]; simp [h]
    exact hne (of_decide_eq_true this)
  have nI : q.verb ≠ vI := by rcases hv with h | h <;> rw [h] <;> decide
  have nP : q.verb ≠ vRP := by rcases hv with h | h <;> rw [h] <;> decide
  unfold txHeader pktHeader pktHeaderWith
  rw [hcore]
  have hne2 : ¬ (e.src = q.dst) := by rw [← hdst]; exact hne'
  simp [hverb, hcode, hdst, nI, nP, hne, hne2]

/-- the gateway substitution preserves the core view: replacing the 18:000730 placeholder in the
    first address field by another 18: id (frame shape src, dst, --) -/
theorem subst_core (q : Frame) (g : List Char)
    (h0 : q.a0 = hgiId) (h2 : q.a2 = nonId) (h1 : q.a1.take 2 ≠ "--".toList)
    (hne : q.a1 ≠ hgiId) (hg : g.take 2 = "18".toList) (hgne : q.a1 ≠ g) :
    ({ q with a0 := g } : Frame).core = q.core ∧ q.src ≠ q.dst := by
  have flt : ∀ x : List Char, x.take 2 ≠ "--".toList →
      [x, q.a1, nonId].filter (fun a => a.take 2 ≠ "--".toList) = [x, q.a1] := by
    intro x hx
    have n2 : nonId.take 2 = "--".toList := by decide
    have hx' : (List.take 2 x = ['-', '-']) = False := eq_false hx
    have h1' : (List.take 2 q.a1 = ['-', '-']) = False := eq_false h1
    simp [List.filter, n2, hx', h1']
  have sd : q.srcDst = (hgiId, q.a1) := by
    unfold Frame.srcDst
    rw [h0, h2, flt hgiId (by decide)]
  have sd' : ({ q with a0 := g } : Frame).srcDst = (g, q.a1) := by
    unfold Frame.srcDst
    simp only
    rw [h2, flt g (by rw [hg]; decide)]
  refine ⟨?_, ?_⟩
  · unfold Frame.core Frame.srcType Frame.src Frame.dst
    rw [sd, sd']
    simp only [hg, HCore.mk.injEq, true_and]
    refine ⟨by decide, ?_⟩
    have a : decide (g = q.a1) = false := decide_eq_false (fun h => hgne h.symm)
    have b : decide (hgiId = q.a1) = false := decide_eq_false (fun h => hne h.symm)
    rw [a, b]
  · unfold Frame.src Frame.dst
    rw [sd]
    exact fun h => hne h.symm

/-- the known finding, as a theorem about the model: RQ|1FC9 never has an expected-reply header -/
theorem rq_1fc9_no_reply_witness :
    (parseFrame "RQ --- 18:000730 13:237335 --:------ 1FC9 001 00".toList).map rxHeader
      = .ok (.ok none) := by decide

/-- non-vacuity: a real request, its echo and its reply -/
example :
    let q := frameFields "RQ --- 18:000730 01:145038 --:------ 000A 002 0800".toList
    let e := frameFields "RQ --- 18:006402 01:145038 --:------ 000A 002 0800".toList
    let r := frameFields "RP --- 01:145038 18:006402 --:------ 000A 006 081001F40DAC".toList
    txHeader q = .ok "000A|RQ|01:145038|08".toList ∧ rxHeader q = .ok (some "000A|RP|01:145038|08".toList) ∧
    isEchoOf "18:006402".toList q e = .ok true ∧ isReplyOf "18:006402".toList q e r = .ok true ∧
    isEarlyReply "18:006402".toList q r = .ok true := by decide

end Ramses.C06
