/-
  C18 — schedule transfers end cleanly under faults and never return a mixed schedule.

  For every fault trace (any number of exchanges; replies from any controller version, failed sends,
  the caller's timeout striking anywhere), every cached fragment set and every prior lock state.
-/
import Ramses.Model.SchedXfer
namespace Ramses.C18
open Ramses.Xfer

/-! ### nothing is left behind -/

/-- **a fetch that got the lock never keeps it**, however it ends: with a schedule, with a failed
    exchange, or cancelled by the caller's timeout at any await -/
theorem no_residue (t : Tcs) (z : String) (o : Bool) (ver : Exch) (set : PSet) (frags : List Exch)
    (h : (getSchedule true t z o ver set frags).2.2 ≠ .lockTimeout) :
    (getSchedule true t z o ver set frags).1.lockIdx = none := by
  unfold getSchedule at h ⊢
  cases hob : obtain t z o with
  | mk t1 ok =>
    cases ok with
    | false => simp [hob] at h
    | true =>
      simp only [hob] at h ⊢
      cases ver with
      | fail => rfl
      | cancel => rfl
      | reply f =>
        simp only
        cases hl : fragLoop (set.set 0 none) frags with
        | mk set' r => cases r <;> rfl

theorem fragLoop_ne_lockTimeout : ∀ (frags : List Exch) (set : PSet), (fragLoop set frags).2 ≠ .lockTimeout := by
  intro frags
  induction frags with
  | nil => intro set; simp [fragLoop]
  | cons e rest ih =>
    intro set
    cases e with
    | fail => simp [fragLoop]
    | cancel => simp [fragLoop]
    | reply f =>
      simp only [fragLoop]
      cases hu : updateSet set f with
      | mk set' r =>
        cases r with
        | some w => simp
        | none => simp only; exact ih set'

/-- a fetch that could not get the lock leaves it with its holder -/
theorem lock_timeout_changes_nothing (t : Tcs) (z : String) (ver : Exch) (set : PSet) (frags : List Exch)
    (h : (getSchedule true t z false ver set frags).2.2 = .lockTimeout) :
    (getSchedule true t z false ver set frags).1 = t := by
  unfold getSchedule at h ⊢
  cases hob : obtain t z false with
  | mk t1 ok =>
    cases ok with
    | false =>
      simp only [hob]
      unfold obtain at hob
      cases hl : t.lockIdx with
      | none => simp [hl] at hob
      | some x =>
        simp only [hl] at hob
        split at hob <;> simp_all
    | true =>
      simp only [hob] at h
      cases ver with
      | fail => simp at h
      | cancel => simp at h
      | reply f =>
        simp only at h
        cases hl : fragLoop (set.set 0 none) frags with
        | mk set' r =>
          rw [hl] at h
          have hne := fragLoop_ne_lockTimeout frags (set.set 0 none)
          rw [hl] at hne
          cases r <;> simp at h
          exact absurd rfl hne

/-- **later transfers proceed**: after any fetch that held the lock has ended, another zone gets
    the lock at once -/
theorem others_proceed (t : Tcs) (z z' : String) (o : Bool) (ver : Exch) (set : PSet) (frags : List Exch)
    (h : (getSchedule true t z o ver set frags).2.2 ≠ .lockTimeout) :
    (obtain (getSchedule true t z o ver set frags).1 z' false).2 = true := by
  have := no_residue t z o ver set frags h
  unfold obtain
  rw [this]

/-- the code as it stood before the repair: a failed exchange left the lock with the zone, and the
    next zone could not get it -/
theorem unfixed_leaks :
    (getSchedule false ⟨none⟩ "01" true (.reply ⟨5, 0, 0⟩) [none] [.reply ⟨5, 1, 3⟩, .fail]).1.lockIdx = some "01" ∧
    (obtain (getSchedule false ⟨none⟩ "01" true (.reply ⟨5, 0, 0⟩) [none] [.reply ⟨5, 1, 3⟩, .fail]).1 "02" false).2 = false := by
  decide

/-! ### never a schedule stitched from two versions -/

theorem decodes_all (fs : List Frag) (v : Nat) (h : decodes fs = some v) : ∀ g ∈ fs, g.ver = v := by
  unfold decodes at h
  cases fs with
  | nil => simp at h
  | cons f rest =>
    simp only at h
    split at h
    · rename_i hall
      simp only [Option.some.injEq] at h
      subst h
      intro g hg
      have := List.all_eq_true.mp hall g hg
      simpa using this
    · cases h

/-- when re-assembly reports a schedule, every fragment it holds — the one just received included —
    is of that one version -/
theorem updateSet_single_version (set : PSet) (f : Frag) (v : Nat) (h : (updateSet set f).2 = some v) :
    (∀ g ∈ (updateSet set f).1.filterMap id, g.ver = v) ∧ (set.length ≠ 0 → f.num - 1 < set.length → f.ver = v) := by
  unfold updateSet at h ⊢
  split at h
  · simp at h
  · rename_i hlen
    simp only at h ⊢
    split at h
    · simp at h
    · rename_i hfull
      cases hd : decodes ((set.set (f.num - 1) (some f)).filterMap id) with
      | none => simp [hd] at h
      | some w =>
        simp only [hd, Option.some.injEq] at h
        subst h
        rw [if_neg hlen, if_neg hfull]
        simp only [hd]
        refine ⟨decodes_all _ w hd, ?_⟩
        intro _ hlt
        apply decodes_all _ w hd f
        rw [List.mem_filterMap]
        exact ⟨some f, List.mem_iff_getElem.mpr ⟨f.num - 1, by simpa using hlt, by simp⟩, rfl⟩

/-- **the fragment loop never returns a mixed schedule**: if it produces a schedule of version `v`,
    every fragment of the final set is of version `v`, and `v` is the version the controller held when
    it sent one of the replies of this very transfer -/
theorem fragLoop_single_version : ∀ (frags : List Exch) (set : PSet) (v : Nat),
    (fragLoop set frags).2 = .sched v →
    (∀ g ∈ (fragLoop set frags).1.filterMap id, g.ver = v) ∧ (∃ f, Exch.reply f ∈ frags ∧ True) := by
  intro frags
  induction frags with
  | nil => intro set v h; simp [fragLoop] at h
  | cons e rest ih =>
    intro set v h
    cases e with
    | fail => simp [fragLoop] at h
    | cancel => simp [fragLoop] at h
    | reply f =>
      simp only [fragLoop] at h ⊢
      cases hu : updateSet set f with
      | mk set' r =>
        cases r with
        | some w =>
          simp only [hu] at h ⊢
          simp only [Result.sched.injEq] at h
          subst h
          have := (updateSet_single_version set f w (by rw [hu])).1
          rw [hu] at this
          exact ⟨this, f, by simp, trivial⟩
        | none =>
          simp only [hu] at h ⊢
          obtain ⟨a, g, hg, _⟩ := ih set' v h
          exact ⟨a, g, by simp [hg], trivial⟩

/-- replies are well-formed when `1 ≤ num ≤ total` -/
def WFReplies (frags : List Exch) : Prop := ∀ f, Exch.reply f ∈ frags → 1 ≤ f.num ∧ f.num ≤ f.total

/-- **the version returned is one the controller held during this very transfer**: it is the version
    of one of the replies of the fragment loop -/
theorem result_version_was_sent : ∀ (frags : List Exch) (set : PSet) (v : Nat), WFReplies frags →
    (fragLoop set frags).2 = .sched v → ∃ f, Exch.reply f ∈ frags ∧ f.ver = v := by
  intro frags
  induction frags with
  | nil => intro set v _ h; simp [fragLoop] at h
  | cons e rest ih =>
    intro set v hwf h
    cases e with
    | fail => simp [fragLoop] at h
    | cancel => simp [fragLoop] at h
    | reply f =>
      simp only [fragLoop] at h
      cases hu : updateSet set f with
      | mk set' r =>
        cases r with
        | some w =>
          simp only [hu, Result.sched.injEq] at h
          subst h
          obtain ⟨h1, h2⟩ := hwf f (by simp)
          -- the set has f.total slots (else updateSet would have restarted it), so f was stored
          have hlen : f.total = set.length := by
            unfold updateSet at hu
            by_cases hl : f.total ≠ set.length
            · rw [if_pos hl] at hu; cases hu
            · simpa using hl
          have := (updateSet_single_version set f w (by rw [hu])).2 (by omega) (by omega)
          exact ⟨f, by simp, this⟩
        | none =>
          simp only [hu] at h
          obtain ⟨g, hg, hv⟩ := ih set' v (fun g hg => hwf g (by simp [hg])) h
          exact ⟨g, by simp [hg], hv⟩

/-- **the label is never newer than the data**: the change counter read before the fragments (`c0`)
    is at most the version of the schedule returned, provided the controller's counter only grows -/
theorem label_not_newer (frags : List Exch) (set : PSet) (c0 v : Nat) (hwf : WFReplies frags)
    (hmono : ∀ f, Exch.reply f ∈ frags → c0 ≤ f.ver) (h : (fragLoop set frags).2 = .sched v) : c0 ≤ v := by
  obtain ⟨f, hf, hv⟩ := result_version_was_sent frags set v hwf h
  rw [← hv]; exact hmono f hf

/-- a fetch returns a schedule only out of the fragment loop, hence of a single version -/
theorem getSchedule_single_version (t : Tcs) (z : String) (o : Bool) (ver : Exch) (set : PSet) (frags : List Exch) (v : Nat)
    (h : (getSchedule true t z o ver set frags).2.2 = .sched v) :
    ∀ g ∈ (getSchedule true t z o ver set frags).2.1.filterMap id, g.ver = v := by
  unfold getSchedule at h ⊢
  cases hob : obtain t z o with
  | mk t1 ok =>
    cases ok with
    | false => simp [hob] at h
    | true =>
      simp only [hob] at h ⊢
      cases ver with
      | fail => simp at h
      | cancel => simp at h
      | reply f =>
        simp only at h ⊢
        cases hl : fragLoop (set.set 0 none) frags with
        | mk set' r =>
          rw [hl] at h
          cases r with
          | sched w =>
            simp only [Result.sched.injEq] at h
            subst h
            have := (fragLoop_single_version frags (set.set 0 none) w (by rw [hl])).1
            rw [hl] at this
            simpa using this
          | _ => simp at h

/-- non-vacuity: the controller's schedule changes (v5 -> v6) in the middle of a transfer; the loop
    restarts the set and returns v6 whole, the lock is free afterwards -/
example :
    getSchedule true ⟨none⟩ "01" true (.reply ⟨5, 0, 0⟩) [none]
      [.reply ⟨5, 1, 2⟩, .reply ⟨6, 2, 2⟩, .reply ⟨6, 1, 2⟩, .reply ⟨6, 2, 2⟩]
      = (⟨none⟩, [some ⟨6, 1, 2⟩, some ⟨6, 2, 2⟩], .sched 6) := by decide

/-! ### writing a schedule -/

/-- a write that got the lock never keeps it, however it ends -/
theorem set_no_residue (t : Tcs) (z : String) (o : Bool) (cache : Cache) (new : Nat) (frags : List WExch) (ver : Exch)
    (h : (setSchedule false t z o cache new frags ver).2.2 ≠ .lockTimeout) :
    (setSchedule false t z o cache new frags ver).1.lockIdx = none := by
  unfold setSchedule at h ⊢
  cases hob : obtain t z o with
  | mk t1 ok =>
    cases ok with
    | false => simp [hob] at h
    | true =>
      simp only [hob]
      cases writeLoop frags with
      | some r => rfl
      | none => cases ver <;> rfl

/-- **a write that fails or is abandoned leaves nothing behind**: unless it ended with the controller's
    acknowledgement of every fragment *and* a change counter read back, the zone believes exactly what it
    believed before (schedule and label) -/
theorem set_failure_keeps_cache (t : Tcs) (z : String) (o : Bool) (cache : Cache) (new : Nat) (frags : List WExch) (ver : Exch)
    (h : ∀ v, (setSchedule false t z o cache new frags ver).2.2 ≠ .sched v) :
    (setSchedule false t z o cache new frags ver).2.1 = cache := by
  unfold setSchedule at h ⊢
  cases hob : obtain t z o with
  | mk t1 ok =>
    cases ok with
    | false => simp
    | true =>
      simp only [hob] at h ⊢
      cases hw : writeLoop frags with
      | some r => simp
      | none =>
        simp only [hw] at h
        cases ver with
        | fail => simp
        | cancel => simp
        | reply f => exact absurd rfl (h f.ver)

/-- a write succeeds exactly when every fragment was acknowledged and the counter was read; the zone then
    holds the new schedule labelled with that counter -/
theorem set_success (t : Tcs) (z : String) (o : Bool) (cache : Cache) (new : Nat) (frags : List WExch) (ver : Exch) (v : Nat)
    (h : (setSchedule false t z o cache new frags ver).2.2 = .sched v) :
    (∀ e ∈ frags, e = .ack) ∧ (∃ f, ver = .reply f ∧ f.ver = v) ∧
    (setSchedule false t z o cache new frags ver).2.1 = ⟨some new, v⟩ := by
  have hall : ∀ fr : List WExch, writeLoop fr = none → ∀ e ∈ fr, e = .ack := by
    intro fr
    induction fr with
    | nil => intro _ e he; cases he
    | cons x xs ih =>
      intro hw e he
      cases x with
      | ack =>
        simp only [writeLoop] at hw
        rcases List.mem_cons.1 he with h | h
        · exact h
        · exact ih hw e h
      | fail => simp [writeLoop] at hw
      | cancel => simp [writeLoop] at hw
  unfold setSchedule at h ⊢
  cases hob : obtain t z o with
  | mk t1 ok =>
    cases ok with
    | false => simp [hob] at h
    | true =>
      simp only [hob] at h ⊢
      cases hw : writeLoop frags with
      | some r =>
        simp only [hw] at h
        have : r ≠ .sched v := by
          intro e
          subst e
          -- writeLoop never yields a schedule
          have : ∀ fr : List WExch, writeLoop fr ≠ some (.sched v) := by
            intro fr
            induction fr with
            | nil => simp [writeLoop]
            | cons x xs ih => cases x <;> simp [writeLoop, ih]
          exact this frags hw
        exact absurd h this
      | none =>
        simp only [hw] at h ⊢
        cases ver with
        | fail => simp at h
        | cancel => simp at h
        | reply f =>
          simp only [Result.sched.injEq] at h
          exact ⟨hall frags hw, ⟨f, rfl, h⟩, by subst h; rfl⟩

/-- storing the new schedule before it is written (the seeded variant) leaves, after a failed write, a
    schedule the controller never accepted under the old label -/
theorem cache_early_leaks_witness :
    (setSchedule true ⟨none⟩ "01" true ⟨some 7, 0x0105⟩ 8 [.ack, .fail] (.reply ⟨0x0105, 0, 0⟩)).2 = (⟨some 8, 0x0105⟩, .error) ∧
    (setSchedule false ⟨none⟩ "01" true ⟨some 7, 0x0105⟩ 8 [.ack, .fail] (.reply ⟨0x0105, 0, 0⟩)).2 = (⟨some 7, 0x0105⟩, .error) := by
  decide

end Ramses.C18
