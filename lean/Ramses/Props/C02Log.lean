/-
  C02 (log clause) — a packet written to the packet log is read back identically: same time stamp
  (to the microsecond), same RSSI and frame text — for every valid time stamp from year 1000 on.
-/
import Ramses.Model.LogLine
set_option linter.unusedSimpArgs false
namespace Ramses.C02Log
open Ramses Ramses.LogLine

theorem digit_char (k : Nat) (h : k < 10) : isDigit (Char.ofNat (48 + k)) = true ∧ (Char.ofNat (48 + k)).toNat - 48 = k := by
  have : k = 0 ∨ k = 1 ∨ k = 2 ∨ k = 3 ∨ k = 4 ∨ k = 5 ∨ k = 6 ∨ k = 7 ∨ k = 8 ∨ k = 9 := by omega
  rcases this with h|h|h|h|h|h|h|h|h|h <;> subst h <;> decide

theorem toDecW_length (w n : Nat) : (toDecW w n).length = w := by
  induction w generalizing n with
  | zero => rfl
  | succ w ih => simp [toDecW, ih]

theorem ofDecAux_toDecW (w : Nat) : ∀ (n acc : Nat) (rest : List Char), n < 10 ^ w →
    ofDecAux (toDecW w n ++ rest) acc = ofDecAux rest (acc * 10 ^ w + n) := by
  induction w with
  | zero => intro n acc rest h; simp at h; subst h; simp [toDecW]
  | succ w ih =>
    intro n acc rest h
    simp only [toDecW, List.append_assoc, List.singleton_append]
    have hq : n / 10 < 10 ^ w := by
      rw [Nat.pow_succ] at h
      exact Nat.div_lt_of_lt_mul (by omega)
    rw [ih (n / 10) acc _ hq]
    have hd := digit_char (n % 10) (Nat.mod_lt _ (by omega))
    simp only [ofDecAux, hd.1, if_true, hd.2]
    congr 1
    rw [Nat.pow_succ]
    have := Nat.div_add_mod n 10
    rw [Nat.add_mul, Nat.mul_assoc]
    omega

theorem takeDec_toDecW (w n : Nat) (rest : List Char) (hw : 0 < w) (h : n < 10 ^ w) :
    takeDec w (toDecW w n ++ rest) = some (n, rest) := by
  unfold takeDec
  have hl := toDecW_length w n
  rw [if_neg (by simp [hl])]
  rw [List.take_left' hl, List.drop_left' hl]
  unfold ofDec
  have hne : toDecW w n ≠ [] := by intro e; rw [e] at hl; simp at hl; omega
  rw [if_neg hne]
  have := ofDecAux_toDecW w n 0 [] h
  simp only [List.append_nil, Nat.zero_mul, Nat.zero_add] at this
  rw [this]; rfl

theorem toDec_big (y : Nat) (h : 1000 ≤ y) : toDec y = toDecW 4 y := by
  unfold toDec
  rw [if_neg (by omega), if_neg (by omega), if_neg (by omega)]

theorem fmtStamp_length (t : Stamp) (hy : 1000 ≤ t.dt.year) : (fmtStamp t).length = 26 := by
  unfold fmtStamp
  rw [toDec_big _ hy]
  simp [toDecW_length]

/-- **the time stamp the logger writes is the one the reader gets** -/
theorem parse_fmt (t : Stamp) (hv : t.valid = true) (hy : 1000 ≤ t.dt.year) : parseStamp (fmtStamp t) = some t := by
  have hlen := fmtStamp_length t hy
  unfold parseStamp
  rw [if_neg (by omega)]
  unfold fmtStamp
  rw [toDec_big _ hy]
  simp only [List.append_assoc, List.cons_append]
  unfold Stamp.valid DateTime.valid at hv
  simp only [Bool.and_eq_true, decide_eq_true_eq] at hv
  obtain ⟨⟨_, hy2, _, hmo, _, hd, hh, hmi, hs⟩, hus⟩ := hv
  have hd31 : t.dt.day ≤ 31 := by
    have : daysInMonth t.dt.year t.dt.month ≤ 31 := by unfold daysInMonth; split <;> (try split) <;> omega
    omega
  rw [takeDec_toDecW 4 _ _ (by omega) (by omega)]
  simp only [Option.bind_some, expect, decide_true, if_true]
  rw [takeDec_toDecW 2 _ _ (by omega) (by omega)]
  simp only [Option.bind_some, expect, decide_true, if_true]
  rw [takeDec_toDecW 2 _ _ (by omega) (by omega)]
  simp only [Option.bind_some, expect, if_true]
  rw [takeDec_toDecW 2 _ _ (by omega) (by omega)]
  simp only [Option.bind_some, expect, decide_true, if_true]
  rw [takeDec_toDecW 2 _ _ (by omega) (by omega)]
  simp only [Option.bind_some, expect, decide_true, if_true]
  rw [takeDec_toDecW 2 _ _ (by omega) (by omega)]
  simp only [Option.bind_some, expect, decide_true, Bool.true_or, if_true]
  have := takeDec_toDecW 6 t.us [] (by omega) (by omega)
  rw [List.append_nil] at this
  rw [this]
  simp only [Option.bind_some]
  have hv' : (⟨⟨t.dt.year, t.dt.month, t.dt.day, t.dt.hour, t.dt.minute, t.dt.second⟩, t.us⟩ : Stamp).valid = true := by
    unfold Stamp.valid DateTime.valid
    simp only [Bool.and_eq_true, decide_eq_true_eq]
    exact ⟨⟨by omega, hy2, by omega, hmo, by omega, hd, hh, hmi, hs⟩, hus⟩
  rw [if_pos hv']

theorem fmtIso_eq (t : Stamp) (hy : 1000 ≤ t.dt.year) : fmtIso t = fmtStamp t := by
  unfold fmtIso fmtStamp; rw [toDec_big _ hy]

theorem fmtIso_length (t : Stamp) : (fmtIso t).length = 26 := by
  unfold fmtIso; simp [toDecW_length]

/-- the ISO form (zero-padded year) is read back for *every* valid time stamp, years 1-9999 -/
theorem parse_iso (t : Stamp) (hv : t.valid = true) : parseStamp (fmtIso t) = some t := by
  have hlen := fmtIso_length t
  unfold parseStamp
  rw [if_neg (by omega)]
  unfold fmtIso
  simp only [List.append_assoc, List.cons_append]
  unfold Stamp.valid DateTime.valid at hv
  simp only [Bool.and_eq_true, decide_eq_true_eq] at hv
  obtain ⟨⟨_, hy2, _, hmo, _, hd, hh, hmi, hs⟩, hus⟩ := hv
  have hd31 : t.dt.day ≤ 31 := by
    have : daysInMonth t.dt.year t.dt.month ≤ 31 := by unfold daysInMonth; split <;> (try split) <;> omega
    omega
  rw [takeDec_toDecW 4 _ _ (by omega) (by omega)]
  simp only [Option.bind_some, expect, decide_true, if_true]
  rw [takeDec_toDecW 2 _ _ (by omega) (by omega)]
  simp only [Option.bind_some, expect, decide_true, if_true]
  rw [takeDec_toDecW 2 _ _ (by omega) (by omega)]
  simp only [Option.bind_some, expect, if_true]
  rw [takeDec_toDecW 2 _ _ (by omega) (by omega)]
  simp only [Option.bind_some, expect, decide_true, if_true]
  rw [takeDec_toDecW 2 _ _ (by omega) (by omega)]
  simp only [Option.bind_some, expect, decide_true, if_true]
  rw [takeDec_toDecW 2 _ _ (by omega) (by omega)]
  simp only [Option.bind_some, expect, decide_true, Bool.true_or, if_true]
  have := takeDec_toDecW 6 t.us [] (by omega) (by omega)
  rw [List.append_nil] at this
  rw [this]
  simp only [Option.bind_some]
  have hv' : (⟨⟨t.dt.year, t.dt.month, t.dt.day, t.dt.hour, t.dt.minute, t.dt.second⟩, t.us⟩ : Stamp).valid = true := by
    unfold Stamp.valid DateTime.valid
    simp only [Bool.and_eq_true, decide_eq_true_eq]
    exact ⟨⟨by omega, hy2, by omega, hmo, by omega, hd, hh, hmi, hs⟩, hus⟩
  rw [if_pos hv']

/-- **a saved-state entry restores to the same time stamp and the same text** (C16: the snapshot's own format) -/
theorem snapEntry_restores (t : Stamp) (rest : List Char) (hv : t.valid = true) :
    parseStamp (snapEntry t rest).1 = some t ∧ (snapEntry t rest).2 = rest := by
  have hlen := fmtIso_length t
  unfold snapEntry
  simp only
  constructor
  · rw [List.take_left' hlen]; exact parse_iso t hv
  · have : (fmtIso t ++ ' ' :: rest) = (fmtIso t ++ [' ']) ++ rest := by simp
    rw [this]; exact List.drop_left' (by simp [hlen])

/-- **log write-then-read is the identity**: for every valid time stamp (year 1000 or later), every
    RSSI text and every frame text -/
theorem read_write (t : Stamp) (rssi frame : List Char) (hv : t.valid = true) (hy : 1000 ≤ t.dt.year) :
    readLine (writeLine t rssi frame) = some (t, rssi ++ ' ' :: frame) := by
  have hlen := fmtStamp_length t hy
  unfold readLine writeLine
  simp only [List.append_assoc, List.cons_append]
  rw [List.take_left' hlen]
  rw [parse_fmt t hv hy]
  simp only [Option.map_some]
  congr 2
  have : (fmtStamp t ++ ' ' :: (rssi ++ ' ' :: frame)) = (fmtStamp t ++ [' ']) ++ (rssi ++ ' ' :: frame) := by simp
  rw [this]
  exact List.drop_left' (by simp [hlen])

/-- the hypothesis `1000 ≤ year` is needed: `%Y` is not padded, so the year-999 stamp has 25
    characters and the reader's fixed columns cut it wrongly -/
theorem year_below_1000_witness :
    readLine (writeLine ⟨⟨999, 1, 1, 0, 0, 0⟩, 0⟩ "045".toList "X".toList) = none := by decide

/-- non-vacuity: a whole-second stamp (microseconds 0) is written with its six zeros and read back -/
example : fmtStamp ⟨⟨2024, 3, 9, 17, 41, 59⟩, 0⟩ = "2024-03-09T17:41:59.000000".toList ∧
    readLine (writeLine ⟨⟨2024, 3, 9, 17, 41, 59⟩, 0⟩ "045".toList " I --- 01:145038".toList)
      = some (⟨⟨2024, 3, 9, 17, 41, 59⟩, 0⟩, "045  I --- 01:145038".toList) := by decide

end Ramses.C02Log
