/-
  C20 (continuation) — "both ends report ... the same offer/accept/confirm packets": the packet a
  binding context reports for its *own* Offer / Accept (`binding_fsm._own_pkt`, the repair fa17a7d)
  always carries the header of that command - whatever the send layer handed back (the echo, or,
  when the echo was not heard, the peer's early reply).
-/
import Ramses.Model.Match
namespace Ramses.C20T
open Ramses

/-- the reported packet is the echo or the command itself: it has the command's own header -/
theorem ownPkt_header (cmd pkt own : Frame) (h : ownPkt cmd pkt = .ok own) : txHeader own = txHeader cmd := by
  unfold ownPkt at h
  cases hp : txHeader pkt with
  | error e => rw [hp] at h; cases h
  | ok ph =>
    cases hc : txHeader cmd with
    | error e => rw [hp, hc] at h; cases h
    | ok ch =>
      rw [hp, hc] at h
      simp only at h
      injection h with h
      by_cases e : ph = ch
      · rw [if_pos e] at h; subst h; rw [hp, e]
      · rw [if_neg e] at h; subst h; rw [hc]

/-- a packet with another header - the peer's reply - is never reported as our own frame -/
theorem ownPkt_not_peers (cmd pkt : Frame) (ph ch : List Char) (hp : txHeader pkt = .ok ph) (hc : txHeader cmd = .ok ch)
    (hne : ph ≠ ch) : ownPkt cmd pkt = .ok cmd := by
  unfold ownPkt; rw [hp, hc]; simp only; rw [if_neg hne]

/-- non-vacuity: the respondent's Accept, its echo, and the supplicant's Confirm that arrived instead -/
example :
    let acc := frameFields " W --- 01:220768 34:259472 --:------ 1FC9 006 012309075E60".toList
    let cfm := frameFields " I --- 34:259472 01:220768 --:------ 1FC9 006 0123098BF590".toList
    ownPkt acc acc = .ok acc ∧ ownPkt acc cfm = .ok acc := by decide

end Ramses.C20T
