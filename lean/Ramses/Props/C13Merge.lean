/-
  C13 (continuation) — "packets that are valid for other systems never stop the gateway from
  continuing to track the ones it knows", for the one place where the gateway keeps state *across
  devices*: the merging of two-packet arrays (Model/ArrayMerge.lean).

  `own_independent`: for every stream of messages, any set of devices `own` and any start state,
  what the devices in `own` are delivered (payloads after merging) is exactly what they would have
  been delivered had no other device's message been received at all.  Unbounded streams, any time
  stamps, any codes; by induction over the stream with a simulation relation between the two runs.
-/
import Ramses.Model.ArrayMerge
namespace Ramses.C13M
open Ramses.AM

theorem detect_true {m p : AMsg} (h : detect m p = true) :
    p.hasArray = true ∧ p.verbI = true ∧ m.src = p.src ∧ m.code = p.code := by
  simp only [detect, Bool.and_eq_true, beq_iff_eq, decide_eq_true_eq] at h
  obtain ⟨⟨⟨⟨⟨⟨h1, _⟩, h3⟩, _⟩, h5⟩, h6⟩, _⟩ := h
  exact ⟨h1, h5, h6, h3⟩

theorem detect_other_src {m p : AMsg} (h : m.src ≠ p.src) : detect m p = false := by
  cases hd : detect m p with
  | false => rfl
  | true => exact absurd (detect_true hd).2.2.1 h

/-- the previous message, if it is the first part of an array, is the head recorded for its key -/
def HeadInv (s : St) : Prop :=
  ∀ q, s.prev = some q → q.verbI = true → q.hasArray = true → lookup s.heads (q.src, q.code) = some q

theorem merged_src (s : St) (m : AMsg) : (merged s m).src = m.src := by
  unfold merged; split <;> rfl

theorem merged_code (s : St) (m : AMsg) : (merged s m).code = m.code := by
  unfold merged; split <;> rfl

theorem lookup_put_same (h : List (Key × AMsg)) (k : Key) (m : AMsg) : lookup (putHead h k m) k = some m := by
  simp [putHead, lookup]

theorem lookup_put_other (h : List (Key × AMsg)) (k k' : Key) (m : AMsg) (hne : k ≠ k') :
    lookup (putHead h k m) k' = lookup h k' := by
  simp [putHead, lookup, hne]

theorem headInv_init : HeadInv St.init := by
  intro q h; simp [St.init] at h

theorem headInv_step (s : St) (m : AMsg) : HeadInv (step s m) := by
  intro q hq hv ha
  simp only [step] at hq
  injection hq with hq
  subst hq
  simp only [step, hv, ha, Bool.and_self, if_true, merged_src, merged_code]
  exact lookup_put_same _ _ _

/-- the simulation relation between the run that hears everybody and the run that hears `own` only -/
structure Rel (own : Nat → Bool) (s1 s2 : St) : Prop where
  heads : ∀ k : Key, own k.1 = true → lookup s1.heads k = lookup s2.heads k
  inv2 : HeadInv s2
  prev : ∀ p, s1.prev = some p → own p.src = true → s2.prev = some p

theorem firstPart_eq (own : Nat → Bool) (s1 s2 : St) (r : Rel own s1 s2) (m : AMsg) (hm : own m.src = true) :
    firstPart s1 m = firstPart s2 m := by
  have hH := r.heads (m.src, m.code) hm
  -- the candidate of the second run, whatever its previous message is
  have cand2 : ∀ (q : Option AMsg), q = s2.prev →
      (match (match q with
        | some p => if detect m p then some p else lookup s2.heads (m.src, m.code)
        | none => lookup s2.heads (m.src, m.code)) with
       | some p => if detect m p then some p else none
       | none => none)
      = (match lookup s2.heads (m.src, m.code) with
       | some p => if detect m p then some p else none
       | none => none) := by
    intro q hq
    cases q with
    | none => rfl
    | some p =>
      by_cases hd : detect m p = true
      · obtain ⟨ha, hv, hs, hc⟩ := detect_true hd
        have := r.inv2 p hq.symm hv ha
        rw [← hs, ← hc] at this
        simp [hd, this]
      · simp [hd]
  unfold firstPart
  cases h1 : s1.prev with
  | none =>
    simp only [hH]
    exact (cand2 s2.prev rfl).symm
  | some p =>
    by_cases ho : own p.src = true
    · have := r.prev p h1 ho
      simp only [this, hH]
    · have hne : m.src ≠ p.src := by
        intro e; rw [e] at hm; exact ho hm
      simp only [detect_other_src hne, hH]
      exact (cand2 s2.prev rfl).symm

theorem merged_eq (own : Nat → Bool) (s1 s2 : St) (r : Rel own s1 s2) (m : AMsg) (hm : own m.src = true) :
    merged s1 m = merged s2 m := by
  unfold merged; rw [firstPart_eq own s1 s2 r m hm]

theorem rel_step_own (own : Nat → Bool) (s1 s2 : St) (r : Rel own s1 s2) (m : AMsg) (hm : own m.src = true) :
    Rel own (step s1 m) (step s2 m) := by
  have e := merged_eq own s1 s2 r m hm
  refine ⟨?_, headInv_step s2 m, ?_⟩
  · intro k hk
    simp only [step, e]
    split
    · by_cases hkk : (m.src, m.code) = k
      · subst hkk; simp [lookup_put_same]
      · rw [lookup_put_other _ _ _ _ hkk, lookup_put_other _ _ _ _ hkk]; exact r.heads k hk
    · exact r.heads k hk
  · intro p hp _
    simp only [step] at hp ⊢
    rw [← e]; exact hp

theorem rel_step_foreign (own : Nat → Bool) (s1 s2 : St) (r : Rel own s1 s2) (f : AMsg) (hf : own f.src = false) :
    Rel own (step s1 f) s2 := by
  refine ⟨?_, r.inv2, ?_⟩
  · intro k hk
    simp only [step]
    split
    · have hkk : (f.src, f.code) ≠ k := by
        intro e; rw [← e] at hk; simp [hf] at hk
      rw [lookup_put_other _ _ _ _ hkk]; exact r.heads k hk
    · exact r.heads k hk
  · intro p hp ho
    simp only [step] at hp
    injection hp with hp
    rw [← hp, merged_src, hf] at ho
    exact absurd ho (by simp)

theorem run_rel (own : Nat → Bool) (l : List AMsg) : ∀ (s1 s2 : St), Rel own s1 s2 →
    (run s1 l).filter (fun m => own m.src) = run s2 (l.filter (fun m => own m.src)) := by
  induction l with
  | nil => intro s1 s2 _; rfl
  | cons m r ih =>
    intro s1 s2 rel
    by_cases hm : own m.src = true
    · simp only [run, List.filter_cons, merged_src, hm, if_true]
      rw [merged_eq own s1 s2 rel m hm, ih _ _ (rel_step_own own s1 s2 rel m hm)]
    · have hf : own m.src = false := by simpa using hm
      simp only [run, List.filter_cons, merged_src, hf]
      exact ih _ _ (rel_step_foreign own s1 s2 rel m hf)

/-- **Neighbour independence of array merging.**  Whatever else is received, and whenever, the
    messages of the devices in `own` are delivered exactly as if nothing else had been received. -/
theorem own_independent (own : Nat → Bool) (l : List AMsg) :
    (run St.init l).filter (fun m => own m.src) = run St.init (l.filter (fun m => own m.src)) :=
  run_rel own l St.init St.init ⟨fun _ _ => rfl, headInv_init, fun p h _ => by simp [St.init] at h⟩

/-- the two parts of an array are merged although another device's packet arrives in between
    (the defect repaired by 5ad1be7), and the other device's packet is delivered untouched -/
example :
    let a1 : AMsg := ⟨1, 10, true, true, 0, [0, 1, 2, 3], true⟩
    let f : AMsg := ⟨2, 30, true, false, 37000, [0], false⟩
    let a2 : AMsg := ⟨1, 10, true, false, 2000000, [4], true⟩
    (run St.init [a1, f, a2]).map (·.elems) = [[0, 1, 2, 3], [0], [0, 1, 2, 3, 4]] := by decide

/-- a neighbour's array right before ours is *not* merged into ours (another source) -/
example :
    let b : AMsg := ⟨9, 10, true, true, 0, [0, 1, 2, 3, 4], true⟩
    let a : AMsg := ⟨1, 10, true, false, 1500000, [1], true⟩
    (run St.init [b, a]).map (·.elems) = [[0, 1, 2, 3, 4], [1]] := by decide

/-- non-vacuity: the second part is too late after 3 s -/
example :
    let a1 : AMsg := ⟨1, 10, true, true, 0, [0, 1], true⟩
    let a2 : AMsg := ⟨1, 10, true, false, 3000000, [2], true⟩
    (run St.init [a1, a2]).map (·.elems) = [[0, 1], [2]] := by decide

end Ramses.C13M
