/-
  C11 (continuation) — "regulation only delays writes": the sync-cycle avoidance in front of every
  serial write terminates, however many sync announcements are remembered and whatever their
  times; announcements whose time has passed never hold a write back.
-/
import Ramses.Model.SyncAvoid
namespace Ramses.C11Sync
open Ramses.Sync

/-- the constants, as regenerated from the source on every run (the theorems below need: the window is narrower
    than 11 polls, i.e. `winUpper - winLower < 11 * waitShort`) -/
theorem consts : waitShort = 10000 ∧ waitLong = 84000 ∧ winLower = 8000 ∧ winUpper = 108800 ∧ maxTracked = 3 := by decide

/-- syncs that can still become or be imminent at `now` -/
def ahead (now : Nat) (syncs : List Nat) : Nat := syncs.countP (fun s => decide (now + winLower < s))

theorem imminent_ahead (now s : Nat) (h : imminent now s = true) : now + winLower < s := by
  unfold imminent at h; simp at h; exact h.1

/-- a write is never held back by announcements whose time has passed (or is within the lower window) -/
theorem overdue_never_blocks (now : Nat) (syncs : List Nat) (fuel : Nat) (h : ∀ s ∈ syncs, s ≤ now + winLower) :
    waitN (fuel + 1) now syncs = some now := by
  unfold waitN
  have : syncs.any (imminent now) = false := by
    rw [List.any_eq_false]
    intro s hs
    have := h s hs
    unfold imminent; simp; omega
  rw [this]; rfl

/-- ... nor by syncs that are far enough in the future -/
theorem far_never_blocks (now : Nat) (syncs : List Nat) (fuel : Nat) (h : ∀ s ∈ syncs, now + winUpper ≤ s) :
    waitN (fuel + 1) now syncs = some now := by
  unfold waitN
  have : syncs.any (imminent now) = false := by
    rw [List.any_eq_false]
    intro s hs
    have := h s hs
    unfold imminent; simp; omega
  rw [this]; rfl

/-- when the loop is left, no remembered sync is imminent: the write does not start inside a sync window -/
theorem exit_is_clear : ∀ (fuel now : Nat) (syncs : List Nat) (t : Nat), waitN fuel now syncs = some t →
    syncs.any (imminent t) = false ∧ now ≤ t := by
  intro fuel
  induction fuel with
  | zero => intro now syncs t h; cases h
  | succ f ih =>
    intro now syncs t h
    unfold waitN at h
    split at h
    · have := ih _ _ _ h; exact ⟨this.1, by omega⟩
    · rename_i hn
      injection h with h; subst h
      exact ⟨by simpa using hn, Nat.le_refl _⟩

/-- running the loop `j` polls further: if it ends from the later instant, it ends from the earlier -/
theorem waitN_prefix (syncs : List Nat) : ∀ (j now F G : Nat),
    (∃ t, waitN F (now + j * waitShort) syncs = some t ∧ t ≤ now + j * waitShort + G * waitShort) →
    ∃ t, waitN (j + F) now syncs = some t ∧ t ≤ now + (j + G) * waitShort := by
  intro j
  induction j with
  | zero => intro now F G h; simpa using h
  | succ j ih =>
    intro now F G h
    have e : j + 1 + F = (j + F) + 1 := by omega
    rw [e]
    unfold waitN
    split
    · have := ih (now + waitShort) F G (by
        obtain ⟨t, ht, hle⟩ := h
        refine ⟨t, ?_, ?_⟩
        · rw [← ht]; congr 1; rw [Nat.succ_mul]; omega
        · rw [Nat.succ_mul] at hle; omega)
      obtain ⟨t, ht, hle⟩ := this
      exact ⟨t, ht, by rw [Nat.add_mul] at hle ⊢; rw [Nat.succ_mul]; omega⟩
    · exact ⟨now, rfl, by omega⟩

theorem ahead_mono (a b : Nat) (syncs : List Nat) (h : a ≤ b) : ahead b syncs ≤ ahead a syncs := by
  unfold ahead
  induction syncs with
  | nil => simp
  | cons s rest ih =>
    simp only [List.countP_cons]
    by_cases hb : b + winLower < s
    · have ha : a + winLower < s := by omega
      simp [ha, hb]; omega
    · simp [hb]; split <;> omega

theorem ahead_drop (a b s : Nat) (syncs : List Nat) (hs : s ∈ syncs) (h : a ≤ b) (ha : a + winLower < s) (hb : ¬ b + winLower < s) :
    ahead b syncs < ahead a syncs := by
  unfold ahead
  induction syncs with
  | nil => cases hs
  | cons x rest ih =>
    simp only [List.countP_cons]
    simp only [List.mem_cons] at hs
    rcases hs with hs | hs
    · subst hs
      have := ahead_mono a b rest h
      unfold ahead at this
      simp [ha, hb]; omega
    · have := ih hs
      by_cases hbx : b + winLower < x
      · have hax : a + winLower < x := by omega
        simp [hax, hbx]; omega
      · simp [hbx]; split <;> omega

/-- **the wait always ends**: with `m` remembered syncs still ahead, the loop is left within `11·m`
    polls (each sync is imminent for less than 11 polls: its window is 100.8 ms wide, a poll is 10 ms) -/
theorem wait_terminates (syncs : List Nat) : ∀ (m now : Nat), ahead now syncs ≤ m →
    ∃ t, waitN (11 * m + 1) now syncs = some t ∧ t ≤ now + (11 * m) * waitShort := by
  intro m
  induction m with
  | zero =>
    intro now h
    refine ⟨now, ?_, by omega⟩
    apply overdue_never_blocks
    intro s hs
    have h0 : ahead now syncs = 0 := by omega
    unfold ahead at h0
    have := (List.countP_eq_zero.1 h0) s hs
    simpa using this
  | succ m ih =>
    intro now h
    by_cases hany : syncs.any (imminent now) = true
    · obtain ⟨s, hs, himm⟩ := List.any_eq_true.1 hany
      -- 11 polls later `s` is behind
      have hlater : ahead (now + 11 * waitShort) syncs ≤ m := by
        have hd := ahead_drop now (now + 11 * waitShort) s syncs hs (by omega) (imminent_ahead now s himm) (by
          unfold imminent at himm; simp at himm
          have c := consts
          omega)
        omega
      obtain ⟨t, ht, hle⟩ := ih (now + 11 * waitShort) hlater
      have := waitN_prefix syncs 11 now (11 * m + 1) (11 * m) ⟨t, ht, hle⟩
      obtain ⟨t', ht', hle'⟩ := this
      have e2 : (11 + 11 * m) * waitShort = (11 * (m + 1)) * waitShort := by congr 1; omega
      refine ⟨t', ?_, by omega⟩
      rw [← ht']; congr 1; omega
    · refine ⟨now, ?_, by omega⟩
      have e : 11 * (m + 1) + 1 = (11 * (m + 1)) + 1 := rfl
      rw [e]; unfold waitN
      simp only [Bool.not_eq_true] at hany
      rw [hany]; rfl

/-- with the three announcements the tracker keeps at most, a write is delayed by at most
    33 polls (0.33 s) plus the long wait -/
theorem write_delay_bound (start : Nat) (syncs : List Nat) (h : syncs.length ≤ 3) :
    ∃ t, writeAt start syncs 34 = some t ∧ start ≤ t ∧ t ≤ start + 33 * waitShort + waitLong := by
  have hm : ahead start syncs ≤ 3 := by
    unfold ahead
    exact Nat.le_trans (List.countP_le_length) h
  obtain ⟨t, ht, hle⟩ := wait_terminates syncs 3 start hm
  have hge := (exit_is_clear _ _ _ _ ht).2
  unfold writeAt
  rw [show 34 = 11 * 3 + 1 from rfl, ht]
  simp only [Option.map_some]
  split
  · exact ⟨_, rfl, by omega, by omega⟩
  · exact ⟨_, rfl, hge, by omega⟩

/-- the tracker never keeps more than three announcements -/
theorem track_le_three (now : Nat) (tracked : List (Nat × Nat)) (src sync : Nat) (h : tracked.length ≤ 3) :
    (track now tracked src sync).length ≤ 3 := by
  unfold track
  have c := consts.2.2.2.2
  simp only [c]
  have : (tracked.filter (fun p => p.1 ≠ src && pending now p.2)).length ≤ 3 :=
    Nat.le_trans (List.length_filter_le _ _) h
  split
  · simp only [List.length_drop, List.length_append, List.length_singleton]; omega
  · simp only [List.length_append, List.length_singleton] at *; omega

/-- without the lower bound of the window (`next_sync - now < UPPER` alone) an announcement whose
    time has passed holds every write back for ever: the loop is never left, whatever the fuel -/
theorem unbounded_below_blocks_witness :
    let imm' (now sync : Nat) : Bool := decide (sync < now + winUpper)
    ∀ k ≤ 50, imm' (1000000 + k * waitShort) 500000 = true := by
  intro imm' k hk
  simp only [imm']
  have c := consts
  simp; omega

/-- non-vacuity: a sync 50 ms ahead holds the write for 5 polls; the long wait follows -/
example : waitN 34 0 [50000] = some 50000 ∧ writeAt 0 [50000] 34 = some 134000 := by decide

end Ramses.C11Sync
