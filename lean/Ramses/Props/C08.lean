/-
  C08 — transmission discipline: exact retry budget, one in flight, priority then FIFO.

  Model: Model/Qos.lean (macro-step abstraction: deferred callbacks are atomic with the transition
  that scheduled them; finer interleavings are explored on the implementation only).
  All theorems are for arbitrary event lists (unbounded), any QoS settings, any loss pattern.
-/
import Ramses.Proofs.QosInv
namespace Ramses.C08
open Ramses Ramses.Qos

/-- **the retry budget is never exceeded**: every command ever offered is transmitted at most
    1 + min(max_retries, 3) times — whatever is lost, whenever callers give up, however the
    connection comes and goes (`3` is the regenerated MAX_RETRY_LIMIT) -/
theorem tx_le_limit (fails : List (Nat × Nat)) (evs : List (Nat × Ev)) (hf : FreshEvs (init fails) evs)
    (c : QCmd) (hc : c ∈ (run (init fails) evs).called) :
    countWrites (run (init fails) evs) c.id ≤ 1 + min c.maxRetries 3 := by
  have := (run_inv _ evs (init_inv fails) hf).budget c hc
  have e : limOf c = 1 + min c.maxRetries 3 := by
    unfold limOf retryCap
    have : Gen.maxRetryLimit = 3 := by decide
    rw [this]; omega
  rw [e] at this; exact this

/-- **one in flight**: the in-flight slot holds at most one command; it is not also queued, it has
    been transmitted exactly `txCount` (1 … its limit) times, and when the slot is empty the
    machine is idle or inactive -/
theorem one_in_flight (fails : List (Nat × Nat)) (evs : List (Nat × Ev)) (hf : FreshEvs (init fails) evs) :
    let s := run (init fails) evs
    (∀ c, s.cur = some c → (∀ q ∈ s.que, q.id ≠ c.id) ∧ countWrites s c.id = s.txCount ∧
        1 ≤ s.txCount ∧ s.txCount ≤ limOf c ∧ (s.st = .wantEcho ∨ s.st = .wantRply)) ∧
    (s.cur = none → s.st = .idle ∨ s.st = .inactive) ∧
    (∀ q ∈ s.que, countWrites s q.id = 0) := by
  have inv := run_inv _ evs (init_inv fails) hf
  refine ⟨?_, inv.idle_ok, fun q hq => (inv.que_ok q hq).2⟩
  intro c hc
  obtain ⟨_, a2, a3, a4, a5, a6, a7⟩ := inv.cur_ok c hc
  exact ⟨a7, a2, a3, by rw [← a5]; exact a4, a6⟩

/-- **priority, then first-come-first-served**: whenever the machine picks the next command to
    start, it is least in (priority, enqueue order) among everything left in the queue -/
theorem start_order (fuel : Nat) (s : S) (c : QCmd) (h : (goIdle fuel s).cur = some c) :
    ∀ q ∈ (goIdle fuel s).que, c.prio < q.prio ∨ (c.prio = q.prio ∧ c.seq ≤ q.seq) := by
  intro q hq
  have := goIdle_starts_best fuel s c h q hq
  unfold leKey at this
  simpa using this

/-- **the waits double, up to 8x**: a timer started with multiplier m lasts base·2^m; an expiry
    sets the multiplier to min(3, m+1), a timer start optimistically decrements it -/
theorem backoff_rule (s : S) (base : Nat) :
    (startTimer s base).timerAt = some (s.now + base * 2 ^ s.mult) ∧
    (startTimer s base).oldMult = s.mult ∧ (startTimer s base).mult = s.mult - 1 := ⟨rfl, rfl, rfl⟩

/-- **exact budget and doubling** for a lone command that never gets an echo (every
    max_retries 0–5, kernel-evaluated on the executable model): transmissions at
    0, 0.5, 1.5, 3.5 s (as many as the budget allows) and failure after the last wait -/
def loneRun (mr : Nat) : S :=
  advance 64 (run (init []) [(0, Ev.call ⟨0, 0, 0, mr, false, true, 20000000⟩)]) 10000000

theorem tx_exact :
    (loneRun 0).writes = [(0, 0)] ∧ (loneRun 0).outcomes = [(0, .failed, 500000)] ∧
    (loneRun 1).writes = [(0, 0), (0, 500000)] ∧ (loneRun 1).outcomes = [(0, .failed, 1500000)] ∧
    (loneRun 2).writes = [(0, 0), (0, 500000), (0, 1500000)] ∧ (loneRun 2).outcomes = [(0, .failed, 3500000)] ∧
    (loneRun 3).writes = [(0, 0), (0, 500000), (0, 1500000), (0, 3500000)] ∧ (loneRun 3).outcomes = [(0, .failed, 7500000)] ∧
    (loneRun 5).writes = [(0, 0), (0, 500000), (0, 1500000), (0, 3500000)] ∧ (loneRun 5).outcomes = [(0, .failed, 7500000)] := by
  decide +kernel

/-- **never transmitted again once answered**: a command whose caller has an outcome is neither
    in flight nor startable (if still queued, it is marked dead and skipped) -/
theorem answered_not_in_flight (fails : List (Nat × Nat)) (evs : List (Nat × Ev)) (hf : FreshEvs (init fails) evs) :
    let s := run (init fails) evs
    ∀ id ∈ s.dead, ∃ o t, (id, o, t) ∈ s.outcomes :=
  (run_inv _ evs (init_inv fails) hf).dead_answered

end Ramses.C08
