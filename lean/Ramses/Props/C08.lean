import Ramses.Model.Match
namespace Ramses.C08
open Ramses
end Ramses.C08
