/-
  C03 (continuation) — set_system_time / set_system_mode / the mode normalisation of set_zone_mode and
  set_dhw_mode: what is built decodes to what was asked for, and what is outside the domain is refused.
-/
import Ramses.Props.C03
import Ramses.Props.C04
set_option linter.unusedSimpArgs false
namespace Ramses.C03Time
open Ramses

/-- `f"{n:02X}"` of a byte -/
theorem fmtX_byte' (n : Int) (h0 : 0 ≤ n) (h1 : n ≤ 255) : fmtX 2 n = fmtHex 2 n.toNat ∧ (fmtHex 2 n.toNat).length = 2 := by
  have hn : n.toNat < 16 ^ 2 := by omega
  refine ⟨?_, fmtHex_length 2 _ (by decide) hn⟩
  unfold fmtX; rw [if_neg (by omega)]

/-- `dtm.isoformat(timespec="seconds")` as the decoder reports it -/
def isoJson (d : DateTime) : Json :=
  .str (toDecW 4 d.year ++ '-' :: toDecW 2 d.month ++ '-' :: toDecW 2 d.day ++ 'T' :: toDecW 2 d.hour ++
    ':' :: toDecW 2 d.minute ++ ':' :: toDecW 2 d.second)

theorem jDtm_roundtrip (d : DateTime) (hv : d.valid = true) (dst : Bool) :
    jDtm (hexFromDtm (some d) dst true) = .ok (isoJson d) := by
  unfold jDtm
  rw [C04.dtm_roundtrip_secs d hv dst]
  rfl

theorem srcType_of_a0 (f : Frame) (h : f.a0 = hgiId) : f.srcType = "18".toList := by
  unfold Frame.srcType Frame.src Frame.srcDst
  rw [h]
  have e : ([hgiId, f.a1, f.a2].filter (fun a => decide (a.take 2 ≠ "--".toList))) =
      hgiId :: ([f.a1, f.a2].filter (fun a => decide (a.take 2 ≠ "--".toList))) := by
    rw [List.filter_cons_of_pos (by decide)]
  rw [e]
  cases hr : [f.a1, f.a2].filter (fun a => decide (a.take 2 ≠ "--".toList)) with
  | nil => rfl
  | cons x xs => rfl

/-- the encoded seconds byte and the shape of the 14-character time stamp -/
theorem hexFromDtm_shape (d : DateTime) (hv : d.valid = true) (dst : Bool) :
    ∃ sec rest, hexFromDtm (some d) dst true = fmtHex 2 sec ++ rest ∧ rest.length = 12 ∧ sec < 256 ∧
      (sec / 128 % 2 = 1 ↔ dst = true) := by
  obtain ⟨h1, h2, h3, h4, h5, h6, h7, h8, h9⟩ := C04.valid_bounds d hv
  have l2 : ∀ n, n < 256 → (fmtHex 2 n).length = 2 := fun n hn => fmtHex_length 2 n (by decide) (by simpa using hn)
  have l4 : (fmtHex 4 d.year).length = 4 := fmtHex_length 4 _ (by decide) (by simp; omega)
  have hrest : (fmtHex 2 d.minute ++ fmtHex 2 d.hour ++ fmtHex 2 d.day ++ fmtHex 2 d.month ++ fmtHex 4 d.year).length = 12 := by
    simp [l2 d.minute (by omega), l2 d.hour (by omega), l2 d.day (by omega), l2 d.month (by omega), l4]
  cases dst with
  | false =>
    refine ⟨d.second, _, ?_, hrest, by omega, ?_⟩
    · simp [hexFromDtm]
    · constructor
      · intro h; omega
      · intro h; cases h
  | true =>
    refine ⟨d.second + 128, _, ?_, hrest, by omega, ?_⟩
    · have : ¬ (d.second / 128 % 2 = 1) := by omega
      simp [hexFromDtm, this]
    · constructor
      · intro _; rfl
      · intro _; omega

/-- **W|313F round trip**: for every valid date-time (leap days included) and either DST flag,
    `set_system_time` builds a W|313F from the gateway whose decoded payload carries that very
    date-time, to the second, and the DST flag -/
theorem setSystemTime_roundtrip (ctl : List Char) (d : DateTime) (dst : Bool) (f : Frame) (hv : d.valid = true)
    (h : setSystemTime ctl d dst = .ok f) :
    f.verb = vW ∧ f.code = "313F".toList ∧
    p313F f = .ok (.dict [("datetime", isoJson d), ("is_dst", if dst then .bool true else .null), ("_unknown_0", .str "60".toList)]) := by
  obtain ⟨sec, rest, hsh, hrl, hs256, hdst⟩ := hexFromDtm_shape d hv dst
  have hl2 : (fmtHex 2 sec).length = 2 := fmtHex_length 2 sec (by decide) (by simpa using hs256)
  have hlen : (hexFromDtm (some d) dst true).length = 14 := by rw [hsh]; simp [hl2, hrl]
  unfold setSystemTime at h
  have hf := C03.fromAttrsDest_fields vW ctl "313F".toList _ f rfl rfl (by simp [hlen]) h
  have ha0 := C03.fromAttrsDest_srcType vW ctl "313F".toList _ f rfl rfl (by simp [hlen]) h
  have hst := srcType_of_a0 f ha0
  refine ⟨hf.1, hf.2.1, ?_⟩
  have hp := hf.2.2.1
  unfold p313F
  simp only [hp, hst]
  have e1 : slice ("0060".toList ++ hexFromDtm (some d) dst true) 2 4 = "60".toList := by
    unfold slice; rfl
  have e2 : slice ("0060".toList ++ hexFromDtm (some d) dst true) 4 18 = hexFromDtm (some d) dst true := by
    unfold slice
    have : ("0060".toList ++ hexFromDtm (some d) dst true).take 18 = "0060".toList ++ hexFromDtm (some d) dst true := by
      apply List.take_of_length_le; simp [hlen]
    rw [this]; rfl
  have e3 : slice ("0060".toList ++ hexFromDtm (some d) dst true) 4 6 = fmtHex 2 sec := by
    unfold slice
    rw [hsh]
    have : ("0060".toList ++ (fmtHex 2 sec ++ rest)).take 6 = "0060".toList ++ fmtHex 2 sec := by
      have : "0060".toList ++ (fmtHex 2 sec ++ rest) = ("0060".toList ++ fmtHex 2 sec) ++ rest := by simp
      rw [this]; exact List.take_left' (by simp [hl2])
    rw [this]; rfl
  rw [e1, e2, e3, jDtm_roundtrip d hv dst]
  have c1 : ("18".toList ≠ Gen.devTypeCTL.toList) := by decide
  have c2 : ¬ ("18".toList = Gen.devTypeDTS.toList ∨ "18".toList = Gen.devTypeDT2.toList) := by decide
  have c3 : ("18".toList ≠ Gen.devTypeRFG'.toList) := by decide
  unfold pyInt16
  rw [ofHex_fmtHex 2 sec (by decide) (by simpa using hs256)]
  simp only [pyAssert, c1, c3, ne_eq, not_false_eq_true, decide_true, Bool.true_or, Bool.or_true, if_true, bind, Except.bind,
    pure, Except.pure]
  cases dst with
  | false =>
    have : ¬ (sec / 128 % 2 = 1) := by intro hh; have := hdst.1 hh; cases this
    have c2' : (¬['1', '8'] = Gen.devTypeDTS.toList ∧ ¬['1', '8'] = Gen.devTypeDT2.toList) := by decide
    simp [this, s, c2']
  | true =>
    have : sec / 128 % 2 = 1 := hdst.2 rfl
    have c2' : (¬['1', '8'] = Gen.devTypeDTS.toList ∧ ¬['1', '8'] = Gen.devTypeDT2.toList) := by decide
    simp [this, s, c2']

/-- the decoder's dispatch: a 313F payload goes to `parser_313f` -/
theorem parser_is_p313F (f : Frame) (arr : Bool) (hc : f.code = "313F".toList) : parser f arr = p313F f := by
  unfold parser parserB
  simp only [hc]
  simp (config := {decide := true}) [inS]

/-- the round trip, through the decoder's own dispatch -/
theorem setSystemTime_decodes (ctl : List Char) (d : DateTime) (dst : Bool) (f : Frame) (hv : d.valid = true)
    (h : setSystemTime ctl d dst = .ok f) :
    parser f false = .ok (.dict [("datetime", isoJson d), ("is_dst", if dst then .bool true else .null), ("_unknown_0", .str "60".toList)]) := by
  obtain ⟨_, hc, hp⟩ := setSystemTime_roundtrip ctl d dst f hv h
  rw [parser_is_p313F f false hc, hp]

/-- a leap day, 23:59:59, DST: decodes to itself (non-vacuity of the hypothesis `setSystemTime … = ok f`) -/
example : (setSystemTime "01:145038".toList ⟨2024, 2, 29, 23, 59, 59⟩ true).isOk = true := by decide +kernel

/-! ### W|2E04: system mode and its `until` -/

theorem jDtm_roundtrip_nosecs (d : DateTime) (hv : d.valid = true) :
    jDtm (hexFromDtm (some d) false false) = .ok (isoJson { d with second := 0 }) := by
  unfold jDtm
  rw [C04.dtm_roundtrip_nosecs d hv]
  rfl

theorem hexFromDtm_nosecs_length (o : Option DateTime) (hv : ∀ d, o = some d → d.valid = true) :
    (hexFromDtm o false false).length = 12 := by
  cases o with
  | none => rfl
  | some d =>
    obtain ⟨h1, h2, h3, h4, h5, h6, h7, h8, h9⟩ := C04.valid_bounds d (hv d rfl)
    have l2 : ∀ n, n < 256 → (fmtHex 2 n).length = 2 := fun n hn => fmtHex_length 2 n (by decide) (by simpa using hn)
    have l4 : (fmtHex 4 d.year).length = 4 := fmtHex_length 4 _ (by decide) (by simp; omega)
    simp [hexFromDtm, l2 d.minute (by omega), l2 d.hour (by omega), l2 d.day (by omega), l2 d.month (by omega), l4]

/-- what the decoder reports as `until` for a mode that takes one -/
def untilJson : Option DateTime → Json
  | none => .null
  | some d => isoJson { d with second := 0 }

def noUntilModes : List String := [Gen.sysModeAuto, Gen.sysModeHeatOff, Gen.sysModeAutoWithReset]

/-- `parser_2e04` on an 8-byte payload `<mode><until: 12 hex><flag>` whose mode is in the table -/
theorem p2E04_of_parts (f : Frame) (k : String × String) (hk : k ∈ Gen.sysModeMap) (untl : Option DateTime)
    (hv : ∀ d, untl = some d → d.valid = true)
    (hp : f.payload = k.1.toList ++ hexFromDtm untl false false ++ (if untl.isSome then "01".toList else "00".toList)) :
    p2E04 f = .ok (.dict ([("system_mode", Json.str k.2.toList)] ++
      (if noUntilModes.contains k.1 then [] else [("until", untilJson untl)]))) := by
  have hH := hexFromDtm_nosecs_length untl hv
  have hk2 : k.1.toList.length = 2 := by
    simp only [Gen.sysModeMap, List.mem_cons, List.not_mem_nil, or_false] at hk
    rcases hk with h | h | h | h | h | h | h | h <;> subst h <;> rfl
  obtain ⟨a, b, hab⟩ := len2 _ hk2
  have hflen : (if untl.isSome then "01".toList else "00".toList).length = 2 := by split <;> rfl
  have hplen : f.payload.length = 16 := by rw [hp, List.length_append, List.length_append, hk2, hH, hflen]
  have hbl : f.blen = 8 := by unfold Frame.blen; rw [hplen]
  have e_take : f.payload.take 2 = k.1.toList := by
    rw [hp, List.append_assoc]; exact List.take_left' hk2
  have e_mid : slice f.payload 2 14 = hexFromDtm untl false false := by
    unfold slice
    rw [hp]
    have : (k.1.toList ++ hexFromDtm untl false false ++ (if untl.isSome then "01".toList else "00".toList)).take 14 =
        k.1.toList ++ hexFromDtm untl false false := List.take_left' (by simp [hk2, hH])
    rw [this]; exact List.drop_left' hk2
  have e_flag : slice f.payload 14 16 = (if untl.isSome then "01".toList else "00".toList) := by
    unfold slice
    rw [List.take_of_length_le (by omega), hp]
    exact List.drop_left' (by simp [hk2, hH])
  unfold p2E04
  simp only [hbl, e_take, e_mid, e_flag, bind, Except.bind, pure, Except.pure, pyAssert]
  have hin : inS (Gen.sysModeMap.map (·.1)) k.1.toList = true := by
    simp only [Gen.sysModeMap, List.mem_cons, List.not_mem_nil, or_false] at hk
    rcases hk with h | h | h | h | h | h | h | h <;> subst h <;> decide
  have hget : mapGet Gen.sysModeMap k.1.toList = .ok k.2.toList := by
    simp only [Gen.sysModeMap, List.mem_cons, List.not_mem_nil, or_false] at hk
    rcases hk with h | h | h | h | h | h | h | h <;> subst h <;> decide
  simp only [hin, if_true, hget]
  by_cases hno : noUntilModes.contains k.1 = true
  · have hc : (k.1.toList = Gen.sysModeAuto.toList || k.1.toList = Gen.sysModeHeatOff.toList || k.1.toList = Gen.sysModeAutoWithReset.toList) = true := by
      simp only [Gen.sysModeMap, List.mem_cons, List.not_mem_nil, or_false] at hk
      rcases hk with h | h | h | h | h | h | h | h <;> subst h <;> revert hno <;> decide
    simp only [hc, if_true, hno, List.append_nil]
  · have hc : (k.1.toList = Gen.sysModeAuto.toList || k.1.toList = Gen.sysModeHeatOff.toList || k.1.toList = Gen.sysModeAutoWithReset.toList) = false := by
      simp only [Gen.sysModeMap, List.mem_cons, List.not_mem_nil, or_false] at hk
      rcases hk with h | h | h | h | h | h | h | h <;> subst h <;> revert hno <;> decide
    simp only [hc, hno, Bool.false_eq_true, if_false]
    cases untl with
    | none => simp [untilJson, s]
    | some d =>
      have : ("01".toList ≠ s "00") := by decide
      simp only [Option.isSome_some, if_true, this, ne_eq, not_false_eq_true]
      rw [jDtm_roundtrip_nosecs d (hv d rfl)]
      rfl

/-- **W|2E04 round trip**: for every mode of the table (given by its key) and every `until` (None, or any
    valid date-time, to the minute), `set_system_mode` either refuses (an `until` for auto / heat_off /
    auto_with_reset) or builds a frame that decodes to that mode and that `until` -/
theorem setSystemMode_roundtrip (ctl : List Char) (k : String × String) (hk : k ∈ Gen.sysModeMap) (untl : Option DateTime)
    (hv : ∀ d, untl = some d → d.valid = true) (f : Frame) (h : setSystemMode ctl (.str k.1.toList) untl = .ok f) :
    f.verb = vW ∧ f.code = "2E04".toList ∧ (untl.isSome = true → noUntilModes.contains k.1 = false) ∧
    p2E04 f = .ok (.dict ([("system_mode", Json.str k.2.toList)] ++
      (if noUntilModes.contains k.1 then [] else [("until", untilJson untl)]))) := by
  have hnm : normMode Gen.sysModeMap Gen.sysModeSlugs Gen.sysModeNames (.str k.1.toList) (some Gen.sysModeAuto.toList) = .ok k.1.toList := by
    simp only [Gen.sysModeMap, List.mem_cons, List.not_mem_nil, or_false] at hk
    rcases hk with h | h | h | h | h | h | h | h <;> subst h <;> decide
  unfold setSystemMode at h
  simp only [hnm, bind, Except.bind, pure, Except.pure, throw, throwThe, MonadExceptOf.throw] at h
  have hH := hexFromDtm_nosecs_length untl hv
  have hk2 : k.1.toList.length = 2 := by
    simp only [Gen.sysModeMap, List.mem_cons, List.not_mem_nil, or_false] at hk
    rcases hk with h | h | h | h | h | h | h | h <;> subst h <;> rfl
  split at h
  · cases h
  · rename_i hguard
    have hflen : (if untl.isSome then "01".toList else "00".toList).length = 2 := by split <;> rfl
    have hf := C03.fromAttrsDest_fields vW ctl "2E04".toList _ f rfl rfl (by
      rw [List.length_append, List.length_append, hk2, hH, hflen]; decide) h
    refine ⟨hf.1, hf.2.1, ?_, p2E04_of_parts f k hk untl hv hf.2.2.1⟩
    intro hu
    simp only [hu, Bool.true_and, Bool.not_eq_true] at hguard
    simp only [Gen.sysModeMap, List.mem_cons, List.not_mem_nil, or_false] at hk
    rcases hk with h | h | h | h | h | h | h | h <;> subst h <;> revert hguard <;> decide

/-! ### W|1F41: DHW mode -/

def activeHex : Option Bool → List Char
  | none => "FF".toList
  | some true => "01".toList
  | some false => "00".toList

def activeJson : Option Bool → Dict
  | none => []
  | some b => [("active", .bool b)]

def untilDict : Option DateTime → Dict
  | none => []
  | some d => [("until", isoJson { d with second := 0 })]

/-- `parser_1f41` on `<idx><active><mode>FFFFFF[<until>]` -/
theorem p1F41_of_parts (f : Frame) (i : List Char) (hi : i.length = 2) (act : Option Bool) (k : String × String)
    (hk : k ∈ Gen.zonModeMap) (untl : Option DateTime) (hv : ∀ d, untl = some d → d.valid = true)
    (hu : untl.isSome = decide (k.1 = Gen.zonModeTEMPORARY))
    (hp : f.payload = i ++ activeHex act ++ k.1.toList ++ "FFFFFF".toList ++ untilHex untl) :
    p1F41 f = .ok (.dict ([("mode", Json.str k.2.toList)] ++ activeJson act ++
      untilDict untl)) := by
  have hk2 : k.1.toList.length = 2 := by
    simp only [Gen.zonModeMap, List.mem_cons, List.not_mem_nil, or_false] at hk
    rcases hk with h | h | h | h | h <;> subst h <;> rfl
  have ha2 : (activeHex act).length = 2 := by cases act with | none => rfl | some b => cases b <;> rfl
  have e_act : slice f.payload 2 4 = activeHex act := by
    unfold slice; rw [hp]
    have : (i ++ activeHex act ++ k.1.toList ++ "FFFFFF".toList ++ untilHex untl).take 4 = i ++ activeHex act := by
      rw [List.append_assoc (i ++ activeHex act), List.append_assoc (i ++ activeHex act)]
      exact List.take_left' (by simp [hi, ha2])
    rw [this]; exact List.drop_left' hi
  have e_m : slice f.payload 4 6 = k.1.toList := by
    unfold slice; rw [hp]
    have : (i ++ activeHex act ++ k.1.toList ++ "FFFFFF".toList ++ untilHex untl).take 6 = i ++ activeHex act ++ k.1.toList := by
      rw [List.append_assoc (i ++ activeHex act ++ k.1.toList)]
      exact List.take_left' (by simp [hi, ha2, hk2])
    rw [this]; exact List.drop_left' (by simp [hi, ha2])
  have e_f : slice f.payload 6 12 = s "FFFFFF" := by
    unfold slice; rw [hp]
    have : (i ++ activeHex act ++ k.1.toList ++ "FFFFFF".toList ++ untilHex untl).take 12 = i ++ activeHex act ++ k.1.toList ++ "FFFFFF".toList :=
      List.take_left' (by simp [hi, ha2, hk2])
    rw [this]; exact List.drop_left' (by simp [hi, ha2, hk2])
  have hin : inS (Gen.zonModeMap.map (·.1)) k.1.toList = true := by
    simp only [Gen.zonModeMap, List.mem_cons, List.not_mem_nil, or_false] at hk
    rcases hk with h | h | h | h | h <;> subst h <;> decide
  have hzm : zonMode k.1.toList = some k.2.toList := by
    simp only [Gen.zonModeMap, List.mem_cons, List.not_mem_nil, or_false] at hk
    rcases hk with h | h | h | h | h <;> subst h <;> decide
  have hact : ∀ (r0 : Dict), (if activeHex act ≠ s "FF" then
        (if activeHex act = s "00" then (Except.ok (r0 ++ [("active", Json.bool false)]) : Py Dict)
         else if activeHex act = s "01" then Except.ok (r0 ++ [("active", Json.bool true)])
         else Except.error .keyError)
      else Except.ok r0) = .ok (r0 ++ activeJson act) := by
    intro r0
    cases act with
    | none => simp [activeHex, activeJson, s, untilDict]
    | some b => cases b <;> simp [activeHex, activeJson, s, untilDict]
  unfold p1F41
  simp only [e_m, e_f, e_act, hin, hzm, pyAssert, bind, Except.bind, pure, Except.pure, decide_true, if_true, throw, throwThe,
    MonadExceptOf.throw]
  by_cases ht : k.1 = Gen.zonModeTEMPORARY
  · -- temporary: an until follows, 12 bytes
    have hsome : untl.isSome = true := by rw [hu]; simp [ht]
    obtain ⟨d, hd⟩ := Option.isSome_iff_exists.1 hsome
    subst hd
    have hU := hexFromDtm_nosecs_length (some d) hv
    have hplen : f.payload.length = 24 := by
      rw [hp]; simp only [List.length_append, hi, ha2, hk2, untilHex, hU]; rfl
    have hbl : f.blen = 12 := by unfold Frame.blen; rw [hplen]
    have e_u : slice f.payload 12 24 = hexFromDtm (some d) false false := by
      unfold slice
      rw [List.take_of_length_le (by omega), hp]
      exact List.drop_left' (by simp [hi, ha2, hk2])
    have hkt : k.1.toList = Gen.zonModeTEMPORARY.toList := by rw [ht]
    simp only [hkt, hbl, decide_true, Bool.true_or, Bool.or_true, if_true, ne_eq, not_true_eq_false, decide_false, Bool.false_or, e_u]
    rw [jDtm_roundtrip_nosecs d (hv d rfl)]
    cases act with
    | none => simp [activeHex, activeJson, s, untilDict]
    | some b => cases b <;> simp [activeHex, activeJson, s, untilDict]
  · have hnone : untl = none := by
      cases untl with
      | none => rfl
      | some d => simp [ht] at hu
    subst hnone
    have hplen : f.payload.length = 12 := by
      rw [hp]; simp only [List.length_append, hi, ha2, hk2, untilHex]; rfl
    have hbl : f.blen = 6 := by unfold Frame.blen; rw [hplen]
    have hkt : ¬ (k.1.toList = Gen.zonModeTEMPORARY.toList) := by
      simp only [Gen.zonModeMap, List.mem_cons, List.not_mem_nil, or_false] at hk
      rcases hk with h | h | h | h | h <;> subst h <;> first | decide | exact absurd rfl ht
    simp only [hkt, hbl, decide_true, decide_false, Bool.false_or, Bool.or_true, Bool.true_or, if_true, ne_eq, not_false_eq_true, if_false]
    cases act with
    | none => simp [activeHex, activeJson, s, untilDict]
    | some b => cases b <;> simp [activeHex, activeJson, s, untilDict]

/-! ### mode / until / duration: what is refused -/

/-- `temporary_override` needs an `until` and takes no `duration`: anything else is refused (W|1F41) -/
theorem setDhwMode_temporary_domain (ctl : List Char) (i : IdxArg) (mode : ModeArg) (active : Option Bool)
    (untl : Option DateTime) (duration : Option Int) (f : Frame)
    (hm : normaliseMode mode active.isSome untl duration = .ok Gen.zonModeTEMPORARY.toList)
    (h : setDhwMode ctl i mode active untl duration = .ok f) : untl.isSome = true ∧ duration = none := by
  unfold setDhwMode at h
  cases hi : checkIdx i with
  | error e => simp [hi, bind, Except.bind] at h
  | ok ii =>
    simp only [hi, hm, bind, Except.bind] at h
    have hne : ¬ (Gen.zonModeTEMPORARY.toList = Gen.zonModeFOLLOW.toList) := by decide
    unfold normaliseUntil at h
    simp only [if_true] at h
    cases duration with
    | some x => simp at h
    | none =>
      cases untl with
      | none => simp [pure, Except.pure] at h
      | some u => exact ⟨rfl, rfl⟩

/-- `countdown_override` needs a `duration` and takes no `until`; the other modes take neither -/
theorem normaliseUntil_domain (m : List Char) (untl : Option DateTime) (duration : Option Int) (h : normaliseUntil m untl duration = .ok ()) :
    (m = Gen.zonModeTEMPORARY.toList → duration = none) ∧
    (m = Gen.zonModeCOUNTDOWN.toList → duration.isSome = true ∧ untl = none) ∧
    (m ≠ Gen.zonModeTEMPORARY.toList → m ≠ Gen.zonModeCOUNTDOWN.toList → untl = none ∧ duration = none) := by
  unfold normaliseUntil at h
  by_cases ht : m = Gen.zonModeTEMPORARY.toList
  · simp only [ht, if_true] at h
    have hne : ¬ (Gen.zonModeTEMPORARY.toList = Gen.zonModeCOUNTDOWN.toList) := by decide
    refine ⟨fun _ => ?_, fun hc => absurd (ht ▸ hc) hne, fun hn => absurd ht hn⟩
    cases duration <;> simp_all
  · simp only [ht, if_false] at h
    by_cases hc : m = Gen.zonModeCOUNTDOWN.toList
    · simp only [hc, if_true] at h
      refine ⟨fun e => absurd e ht, fun _ => ?_, fun _ hn => absurd hc hn⟩
      cases duration <;> cases untl <;> simp_all
    · simp only [hc, if_false] at h
      refine ⟨fun e => absurd e ht, fun e => absurd e hc, fun _ _ => ?_⟩
      cases duration <;> cases untl <;> simp_all

/-- a mode must be named or implied: with neither a mode nor a target the call is refused; so is
    `until` together with a (non-zero) `duration`; and every mode but follow_schedule needs its target -/
theorem normaliseMode_refuses (mode : ModeArg) (hasTarget : Bool) (untl : Option DateTime) (duration : Option Int) (m : List Char)
    (h : normaliseMode mode hasTarget untl duration = .ok m) :
    (mode = .none → hasTarget = true) ∧ (untl.isSome = true → duration = none ∨ duration = some 0) ∧
    (m ≠ Gen.zonModeFOLLOW.toList → hasTarget = true) := by
  unfold normaliseMode at h
  split at h
  · cases h
  rename_i h1
  split at h
  · cases h
  rename_i h2
  simp only at h
  split at h
  · cases h
  rename_i mm hmm
  split at h
  · cases h
  rename_i h3
  injection h with h
  subst h
  refine ⟨?_, ?_, ?_⟩
  · intro hm; subst hm
    cases hasTarget <;> simp_all
  · intro hu
    cases duration with
    | none => exact Or.inl rfl
    | some x =>
      by_cases hx : x = 0
      · exact Or.inr (by rw [hx])
      · exfalso; simp [hu, durTruthy, hx] at h2
  · intro hne
    cases hasTarget with
    | true => rfl
    | false => exfalso; simp [hne] at h3

theorem normModeStr_key (k : String × String) (hk : k ∈ Gen.zonModeMap) :
    normModeStr Gen.zonModeMap Gen.zonModeSlugs Gen.zonModeNames k.1.toList = .ok k.1.toList := by
  simp only [Gen.zonModeMap, List.mem_cons, List.not_mem_nil, or_false] at hk
  rcases hk with h | h | h | h | h <;> subst h <;> decide

/-- a mode given by its key is the mode that is encoded -/
theorem normaliseMode_str_key (k : String × String) (hk : k ∈ Gen.zonModeMap) (hasT : Bool) (untl : Option DateTime)
    (du : Option Int) (m : List Char) (h : normaliseMode (.str k.1.toList) hasT untl du = .ok m) : m = k.1.toList := by
  unfold normaliseMode at h
  split at h
  · cases h
  split at h
  · cases h
  simp only [normMode, normModeStr_key k hk] at h
  split at h
  · cases h
  · injection h with h; exact h.symm

/-- **W|1F41 round trip**: for every mode of the table but countdown (whose frames the decoder refuses: a
    recorded finding), given by its key, with no duration: `set_dhw_mode` either refuses, or builds a frame that
    decodes to that mode, to the `active` flag (dropped for follow_schedule) and - for temporary_override - to
    the `until` given, to the minute -/
theorem setDhwMode_roundtrip (ctl : List Char) (idx : IdxArg) (k : String × String) (hk : k ∈ Gen.zonModeMap)
    (act : Option Bool) (untl : Option DateTime) (hv : ∀ d, untl = some d → d.valid = true) (f : Frame)
    (h : setDhwMode ctl idx (.str k.1.toList) act untl none = .ok f) :
    f.verb = vW ∧ f.code = "1F41".toList ∧ k.1 ≠ Gen.zonModeCOUNTDOWN ∧
    p1F41 f = .ok (.dict ([("mode", Json.str k.2.toList)] ++
      activeJson (if k.1 = Gen.zonModeFOLLOW then none else act) ++
      untilDict untl)) := by
  have hk2 : k.1.toList.length = 2 := by
    simp only [Gen.zonModeMap, List.mem_cons, List.not_mem_nil, or_false] at hk
    rcases hk with h | h | h | h | h <;> subst h <;> rfl
  have toL : ∀ (x : String), k.1 ≠ x → x ∈ [Gen.zonModeFOLLOW, Gen.zonModeTEMPORARY, Gen.zonModeCOUNTDOWN] → k.1.toList ≠ x.toList := by
    intro x hne hx
    simp only [Gen.zonModeMap, List.mem_cons, List.not_mem_nil, or_false] at hk hx
    rcases hk with h | h | h | h | h <;> subst h <;> rcases hx with e | e | e <;> subst e <;> first | decide | exact absurd rfl hne
  unfold setDhwMode at h
  simp only [bind, Except.bind, pure, Except.pure, throw, throwThe, MonadExceptOf.throw] at h
  cases hi : checkIdx idx with
  | error e => simp [hi] at h
  | ok i =>
    simp only [hi] at h
    obtain ⟨n, hn, hr⟩ := C03.checkIdx_sound idx i hi
    have hil : i.length = 2 := by rw [hn]; exact fmtHex_length 2 n (by decide) (by rcases hr with h|h|h|h <;> omega)
    cases hm : normaliseMode (.str k.1.toList) act.isSome untl none with
    | error e => simp [hm] at h
    | ok m =>
      have hmk := normaliseMode_str_key k hk _ _ _ m hm
      subst hmk
      simp only [hm] at h
      cases hnu : normaliseUntil k.1.toList untl none with
      | error e => simp [hnu] at h
      | ok u =>
        simp only [hnu] at h
        split at h
        · cases h
        rename_i htmp
        have hdom := normaliseUntil_domain k.1.toList untl none hnu
        have hnc : k.1 ≠ Gen.zonModeCOUNTDOWN := by
          intro e
          have := (hdom.2.1 (by rw [e])).1
          simp at this
        have hu : untl.isSome = decide (k.1 = Gen.zonModeTEMPORARY) := by
          by_cases ht : k.1 = Gen.zonModeTEMPORARY
          · simp only [ht, decide_true]
            cases untl with
            | none => simp [ht] at htmp
            | some d => rfl
          · have := (hdom.2.2 (toL _ ht (by simp)) (toL _ hnc (by simp))).1
            simp [this, ht]
        have hact' : (if k.1.toList = Gen.zonModeFOLLOW.toList then none else act) = (if k.1 = Gen.zonModeFOLLOW then none else act) := by
          by_cases hf : k.1 = Gen.zonModeFOLLOW
          · simp [hf]
          · simp [toL _ hf (by simp), hf]
        rw [hact'] at h
        obtain ⟨act', hdef⟩ : ∃ a, a = (if k.1 = Gen.zonModeFOLLOW then none else act) := ⟨_, rfl⟩
        rw [← hdef] at h ⊢
        have hU : (untilHex untl).length = (if untl.isSome then 12 else 0) := by
          cases untl with
          | none => rfl
          | some d => simp only [untilHex, Option.isSome_some, if_true]; exact hexFromDtm_nosecs_length (some d) hv
        have fin : ∀ (a' : Option Bool), fromAttrsDest vW ctl "1F41".toList (i ++ activeHex a' ++ k.1.toList ++ durHex none ++ untilHex untl) = .ok f →
            f.verb = vW ∧ f.code = "1F41".toList ∧ k.1 ≠ Gen.zonModeCOUNTDOWN ∧
            p1F41 f = .ok (.dict ([("mode", Json.str k.2.toList)] ++ activeJson a' ++
              untilDict untl)) := by
          intro a' h'
          have ha2 : (activeHex a').length = 2 := by cases a' with | none => rfl | some b => cases b <;> rfl
          have hlen : (i ++ activeHex a' ++ k.1.toList ++ durHex none ++ untilHex untl).length / 2 < 1000 := by
            simp only [List.length_append, hil, ha2, hk2, hU, durHex]
            split <;> decide
          have hf := C03.fromAttrsDest_fields vW ctl "1F41".toList _ f rfl rfl hlen h'
          exact ⟨hf.1, hf.2.1, hnc, p1F41_of_parts f i hil a' k hk untl hv hu (by rw [hf.2.2.1]; rfl)⟩
        cases act' with
        | none => exact fin none h
        | some b =>
          cases b with
          | true => exact fin (some true) h
          | false => exact fin (some false) h

end Ramses.C03Time
