/-
  C19 — the fault-log view tracks the controller's log and never shows an entry twice.

  Model: Model/FaultLog.lean.  Two statements of the property are FALSE of the current code
  (recorded findings, witnessed below); what is proved is
   * unconditionally: no phantom entries, and the view never raises (every mapped stamp is held);
   * `…_partial`: while the view is *consistent* with the controller's log it is newest-first and
     duplicate-free, and replies / null replies / announcements (with the top known) keep it
     consistent — i.e. the property holds on histories without lost announcements whose top
     entry has been read.
-/
import Ramses.Model.FaultLog
namespace Ramses.C19
open Ramses

/-! ### membership lemmas for the OrderedDict operations -/

theorem mem_fmSet (m : FMap) (k v : Nat) (x : Nat × Nat) (h : x ∈ fmSet m k v) : x = (k, v) ∨ x ∈ m := by
  unfold fmSet at h
  split at h
  · simp only [List.mem_map] at h
    obtain ⟨y, hy, hxy⟩ := h
    split at hxy
    · exact Or.inl hxy.symm
    · exact Or.inr (hxy ▸ hy)
  · simp only [List.mem_append, List.mem_singleton] at h
    rcases h with h | h
    · exact Or.inr h
    · exact Or.inl h

theorem mem_fmUpdate (m o : FMap) (x : Nat × Nat) (h : x ∈ fmUpdate m o) : x ∈ m ∨ x ∈ o := by
  unfold fmUpdate at h
  induction o generalizing m with
  | nil => exact Or.inl h
  | cons kv o ih =>
    simp only [List.foldl_cons] at h
    rcases ih _ h with h1 | h1
    · rcases mem_fmSet m kv.1 kv.2 x h1 with h2 | h2
      · exact Or.inr (by simp [h2])
      · exact Or.inl h2
    · exact Or.inr (by simp [h1])

/-- every entry of the rebuilt map is the reported entry itself or comes (possibly shifted) from
    the old map: its stamp was known before -/
theorem insert_values (m : FMap) (idx : Nat) (dtm : Option Nat) (x : Nat × Nat)
    (h : x ∈ insertIntoMap m idx dtm) : (dtm = some x.2) ∨ (∃ y ∈ m, y.2 = x.2) := by
  unfold insertIntoMap at h
  split at h
  · rcases mem_fmUpdate _ _ _ h with h | h
    · cases h
    · exact Or.inr ⟨x, (List.mem_filter.1 h).1, rfl⟩
  · rename_i d
    simp only at h
    have base : ∀ x, x ∈ fmSet (fmUpdate [] (m.filter (fun kv => kv.1 < idx && kv.2 > d))) idx d →
        (some d = some x.2) ∨ (∃ y ∈ m, y.2 = x.2) := by
      intro x hx
      rcases mem_fmSet _ _ _ _ hx with h | h
      · exact Or.inl (by rw [h])
      · rcases mem_fmUpdate _ _ _ h with h | h
        · cases h
        · exact Or.inr ⟨x, (List.mem_filter.1 h).1, rfl⟩
    split at h
    · exact base x h
    · rcases mem_fmUpdate _ _ _ h with h | h
      · exact base x h
      · simp only [List.mem_map] at h
        obtain ⟨y, hy, hxy⟩ := h
        exact Or.inr ⟨y, (List.mem_filter.1 hy).1, by rw [← hxy]⟩

/-! ### unconditional invariants -/

/-- `Held s`: every stamp in the map is a key of `_log` — the `faultlog` property cannot raise -/
def Held (s : FLog) : Prop := ∀ x ∈ s.map, x.2 ∈ s.log

theorem held_step (s : FLog) (msg : FMsg) (h : Held s) : Held (processMsg s msg) := by
  unfold processMsg
  split
  · intro x hx
    simp only [List.mem_filter, List.any_eq_true, decide_eq_true_eq]
    refine ⟨?_, ⟨x, hx, rfl⟩⟩
    rcases insert_values s.map msg.idx none x hx with h1 | ⟨y, hy, hyx⟩
    · cases h1
    · rw [← hyx]; exact h y hy
  · rename_i d
    split
    · exact h
    · intro x hx
      simp only [List.mem_filter, List.any_eq_true, decide_eq_true_eq]
      refine ⟨?_, ⟨x, hx, rfl⟩⟩
      rcases insert_values s.map msg.idx (some _) x hx with h1 | ⟨y, hy, hyx⟩
      · injection h1 with h1
        split
        · rename_i hc; rw [← h1]; simpa using hc
        · rw [← h1]; simp
      · rw [← hyx]
        have := h y hy
        split
        · exact this
        · simp [this]

/-- **reading the view never raises**, after any history -/
theorem view_total (msgs : List FMsg) : viewTotal (processAll FLog.empty msgs) = true := by
  have : ∀ s, Held s → Held (processAll s msgs) := by
    induction msgs with
    | nil => intro s h; exact h
    | cons m ms ih => intro s h; exact ih _ (held_step s m h)
  have hh := this FLog.empty (by intro x hx; cases hx)
  unfold viewTotal
  simp only [List.all_eq_true, List.contains_eq_mem, decide_eq_true_eq]
  exact hh

/-- **no phantoms**: every stamp in the view was carried by some processed message -/
theorem no_phantoms (msgs : List FMsg) :
    ∀ x ∈ (processAll FLog.empty msgs).map, ∃ msg ∈ msgs, msg.dtm = some x.2 := by
  have : ∀ (s : FLog) (seen : List FMsg), (∀ x ∈ s.map, ∃ msg ∈ seen, msg.dtm = some x.2) →
      ∀ x ∈ (processAll s msgs).map, ∃ msg ∈ seen ++ msgs, msg.dtm = some x.2 := by
    induction msgs with
    | nil => intro s seen h x hx; simpa using h x hx
    | cons m ms ih =>
      intro s seen h x hx
      have step : ∀ y ∈ (processMsg s m).map, ∃ msg ∈ seen ++ [m], msg.dtm = some y.2 := by
        intro y hy
        unfold processMsg at hy
        split at hy
        · rcases insert_values s.map m.idx none y hy with h1 | ⟨z, hz, hzy⟩
          · cases h1
          · obtain ⟨g, hg, hgd⟩ := h z hz
            exact ⟨g, by simp [hg], by rw [hgd, hzy]⟩
        · rename_i d hd
          split at hy
          · obtain ⟨g, hg, hgd⟩ := h y hy
            exact ⟨g, by simp [hg], hgd⟩
          · rcases insert_values s.map m.idx (some _) y hy with h1 | ⟨z, hz, hzy⟩
            · exact ⟨m, by simp, by rw [hd, h1]⟩
            · obtain ⟨g, hg, hgd⟩ := h z hz
              exact ⟨g, by simp [hg], by rw [hgd, hzy]⟩
      have := ih (processMsg s m) (seen ++ [m]) step x hx
      simpa using this
  intro x hx
  simpa using this FLog.empty [] (by intro x hx; cases hx) x hx

/-! ### `…_partial`: while the view is consistent with the controller's log -/

/-- the view is a partial copy of the controller's log `L` (newest first): position k holds L[k] -/
def Consistent (L : List Nat) (m : FMap) : Prop := ∀ x ∈ m, L[x.1]? = some x.2

/-- the controller's log is strictly newest-first (time stamps are unique) -/
def Desc (L : List Nat) : Prop := L.Pairwise (· > ·)

theorem desc_lt (L : List Nat) (hd : Desc L) (i j a b : Nat) (hi : L[i]? = some a) (hj : L[j]? = some b)
    (hij : i < j) : a > b := by
  have hjl : j < L.length := by
    rcases Nat.lt_or_ge j L.length with h | h
    · exact h
    · rw [List.getElem?_eq_none h] at hj; cases hj
  have hil : i < L.length := by omega
  rw [List.getElem?_eq_getElem hil] at hi
  rw [List.getElem?_eq_getElem hjl] at hj
  injection hi with hi; injection hj with hj
  rw [← hi, ← hj]
  exact (List.pairwise_iff_getElem.1 hd) i j hil hjl hij

/-- **newest-first, no entry at two positions** — for every view consistent with the log -/
theorem ordered_of_consistent_partial (L : List Nat) (m : FMap) (hc : Consistent L m) (hd : Desc L)
    (x y : Nat × Nat) (hx : x ∈ m) (hy : y ∈ m) :
    (x.1 < y.1 → x.2 > y.2) ∧ (x.2 = y.2 → x.1 = y.1) := by
  refine ⟨fun h => desc_lt L hd _ _ _ _ (hc x hx) (hc y hy) h, fun h => ?_⟩
  rcases Nat.lt_trichotomy x.1 y.1 with h1 | h1 | h1
  · have := desc_lt L hd _ _ _ _ (hc x hx) (hc y hy) h1; omega
  · exact h1
  · have := desc_lt L hd _ _ _ _ (hc y hy) (hc x hx) h1; omega

theorem foldl_min_gt (l : List Nat) (a i : Nat) (ha : a > i) (hl : ∀ x ∈ l, x > i) : l.foldl min a > i := by
  induction l generalizing a with
  | nil => exact ha
  | cons x xs ih =>
    simp only [List.foldl_cons]
    exact ih (min a x) (by have := hl x (by simp); omega) (fun y hy => hl y (by simp [hy]))

theorem minList_gt (l : List Nat) (i : Nat) (hne : l ≠ []) (hl : ∀ x ∈ l, x > i) : minList l > i := by
  cases l with
  | nil => exact absurd rfl hne
  | cons x xs => exact foldl_min_gt xs x i (hl x (by simp)) (fun y hy => hl y (by simp [hy]))

theorem foldl_min_le (l : List Nat) (a : Nat) : l.foldl min a ≤ a ∧ ∀ x ∈ l, l.foldl min a ≤ x := by
  induction l generalizing a with
  | nil => simp
  | cons y ys ih =>
    simp only [List.foldl_cons]
    have := ih (min a y)
    refine ⟨by omega, fun x hx => ?_⟩
    simp only [List.mem_cons] at hx
    rcases hx with hx | hx
    · subst hx; omega
    · exact this.2 x hx

theorem minList_zero (l : List Nat) (h : 0 ∈ l) : minList l = 0 := by
  cases l with
  | nil => cases h
  | cons x xs =>
    simp only [minList]
    have := foldl_min_le xs x
    simp only [List.mem_cons] at h
    rcases h with h | h
    · subst h; omega
    · have := this.2 0 h; omega

/-- a **reply** carrying the entry the controller really has at position i keeps the view
    consistent (whatever subset of positions was known before) -/
theorem consistent_reply_partial (L : List Nat) (m : FMap) (i d : Nat) (hc : Consistent L m)
    (hd : Desc L) (hi : L[i]? = some d) : Consistent L (insertIntoMap m i (some d)) := by
  have older : ∀ y ∈ m, y.2 < d → y.1 > i := by
    intro y hy hlt
    rcases Nat.lt_trichotomy y.1 i with h | h | h
    · have := desc_lt L hd _ _ _ _ (hc y hy) hi h; omega
    · have := hc y hy; rw [h, hi] at this; injection this with this; omega
    · exact h
  have base : ∀ x, x ∈ fmSet (fmUpdate [] (m.filter (fun kv => kv.1 < i && kv.2 > d))) i d →
      L[x.1]? = some x.2 := by
    intro x hx
    rcases mem_fmSet _ _ _ _ hx with h | h
    · rw [h]; exact hi
    · rcases mem_fmUpdate _ _ _ h with h | h
      · cases h
      · exact hc x (List.mem_filter.1 h).1
  intro x hx
  unfold insertIntoMap at hx
  simp only at hx
  split at hx
  · exact base x hx
  · rename_i hne
    have hnext : minList ((m.filter (fun kv => kv.2 < d)).map (·.1)) > i := by
      apply minList_gt _ _ hne
      intro k hk
      simp only [List.mem_map, List.mem_filter, decide_eq_true_eq] at hk
      obtain ⟨y, ⟨hy, hyd⟩, hyk⟩ := hk
      rw [← hyk]; exact older y hy hyd
    simp only [hnext, if_true] at hx
    rcases mem_fmUpdate _ _ _ hx with h | h
    · exact base x h
    · simp only [List.mem_map, List.mem_filter, Nat.add_zero] at h
      obtain ⟨y, ⟨hy, _⟩, hyx⟩ := h
      rw [← hyx]; exact hc y hy

/-- a **null reply** keeps the view consistent -/
theorem consistent_null_partial (L : List Nat) (m : FMap) (i : Nat) (hc : Consistent L m) :
    Consistent L (insertIntoMap m i none) := by
  intro x hx
  unfold insertIntoMap at hx
  rcases mem_fmUpdate _ _ _ hx with h | h
  · cases h
  · exact hc x (List.mem_filter.1 h).1

/-- an **announcement** of a new entry `d` (newer than everything) pushes the known entries down
    by one — provided the top of the log was known (or nothing was): the view stays consistent
    with the controller's new log `d :: L` -/
theorem consistent_announce_partial (L : List Nat) (m : FMap) (d : Nat) (hc : Consistent L m)
    (hd : Desc (d :: L)) (htop : m = [] ∨ ∃ x ∈ m, x.1 = 0) :
    Consistent (d :: L) (insertIntoMap m 0 (some d)) := by
  have hnewer : ∀ y ∈ m, y.2 < d := by
    intro y hy
    have h1 := hc y hy
    have : (d :: L)[y.1 + 1]? = some y.2 := by simpa using h1
    have h0 : (d :: L)[0]? = some d := rfl
    exact desc_lt (d :: L) hd 0 (y.1 + 1) d y.2 h0 this (by omega)
  have hfil : m.filter (fun kv => kv.1 < 0 && kv.2 > d) = [] := by
    apply List.filter_eq_nil_iff.2
    intro x _; simp
  intro x hx
  unfold insertIntoMap at hx
  simp only [hfil] at hx
  have e0 : fmSet (fmUpdate [] []) 0 d = [(0, d)] := rfl
  rw [e0] at hx
  split at hx
  · simp only [List.mem_singleton] at hx; rw [hx]; rfl
  · rename_i hne
    rcases htop with h | ⟨z, hz, hz0⟩
    · subst h; simp at hne
    · have hmem : 0 ∈ (m.filter (fun kv => kv.2 < d)).map (·.1) := by
        simp only [List.mem_map, List.mem_filter, decide_eq_true_eq]
        exact ⟨z, ⟨hz, hnewer z hz⟩, hz0⟩
      have hmin := minList_zero _ hmem
      rw [hmin] at hx
      simp only [Nat.lt_irrefl, if_false, if_true] at hx
      rcases mem_fmUpdate _ _ _ hx with h | h
      · simp only [List.mem_singleton] at h; rw [h]; rfl
      · simp only [List.mem_map, List.mem_filter] at h
        obtain ⟨y, ⟨hy, _⟩, hyx⟩ := h
        rw [← hyx]
        simpa using hc y hy

/-- non-vacuity: the consistent case is inhabited (three entries, all positions known) -/
example : Consistent [30, 20, 10] [(0, 30), (1, 20), (2, 10)] ∧ Desc [30, 20, 10] ∧
    insertIntoMap [(0, 30), (1, 20), (2, 10)] 0 (some 40) = [(0, 40), (1, 30), (2, 20), (3, 10)] := by
  refine ⟨?_, by unfold Desc; decide, by decide⟩
  intro x hx
  simp only [List.mem_cons, List.mem_singleton, List.not_mem_nil, or_false] at hx
  rcases hx with h | h | h <;> rw [h] <;> rfl

/-! ### a complete read-through (`get_faultlog`) -/

def HasKey (m : FMap) (k : Nat) : Prop := ∃ y ∈ m, y.1 = k

theorem fmSet_key_self (m : FMap) (k v : Nat) : HasKey (fmSet m k v) k := by
  unfold fmSet
  split
  · rename_i h
    obtain ⟨y, hy, hk⟩ := List.any_eq_true.1 h
    refine ⟨(k, v), ?_, rfl⟩
    simp only [List.mem_map]
    exact ⟨y, hy, by simp only [decide_eq_true_eq] at hk; simp [hk]⟩
  · exact ⟨(k, v), by simp, rfl⟩

theorem fmSet_keys (m : FMap) (k v j : Nat) (h : HasKey m j) : HasKey (fmSet m k v) j := by
  obtain ⟨x, hx, hj⟩ := h
  unfold fmSet
  split
  · by_cases hxk : x.1 = k
    · refine ⟨(k, v), ?_, by omega⟩
      simp only [List.mem_map]
      exact ⟨x, hx, by simp [hxk]⟩
    · refine ⟨x, ?_, hj⟩
      simp only [List.mem_map]
      exact ⟨x, hx, by simp [hxk]⟩
  · exact ⟨x, by simp [hx], hj⟩

theorem fmUpdate_keys_left (m o : FMap) (j : Nat) (h : HasKey m j) : HasKey (fmUpdate m o) j := by
  unfold fmUpdate
  induction o generalizing m with
  | nil => exact h
  | cons kv o ih => simp only [List.foldl_cons]; exact ih _ (fmSet_keys m kv.1 kv.2 j h)

theorem fmUpdate_keys_right (m o : FMap) (j : Nat) (h : HasKey o j) : HasKey (fmUpdate m o) j := by
  induction o generalizing m with
  | nil => obtain ⟨_, hx, _⟩ := h; cases hx
  | cons kv o ih =>
    obtain ⟨x, hx, hj⟩ := h
    simp only [List.mem_cons] at hx
    have e : fmUpdate m (kv :: o) = fmUpdate (fmSet m kv.1 kv.2) o := rfl
    rw [e]
    rcases hx with hx | hx
    · subst hx
      exact fmUpdate_keys_left _ _ _ (hj ▸ fmSet_key_self m x.1 x.2)
    · exact ih _ ⟨x, hx, hj⟩

/-- a reply for position `i` puts position `i` into the view -/
theorem insert_some_has_self (m : FMap) (i d : Nat) : HasKey (insertIntoMap m i (some d)) i := by
  unfold insertIntoMap
  simp only
  split
  · exact fmSet_key_self _ _ _
  · exact fmUpdate_keys_left _ _ _ (fmSet_key_self _ _ _)

/-- ... and keeps every lower position that was known (their entries are newer) -/
theorem insert_some_keeps (L : List Nat) (m : FMap) (j d k : Nat) (hc : Consistent L m) (hd : Desc L)
    (hj : L[j]? = some d) (hk : k < j) (h : HasKey m k) : HasKey (insertIntoMap m j (some d)) k := by
  obtain ⟨x, hx, hxk⟩ := h
  have hnewer : x.2 > d := by
    have := desc_lt L hd x.1 j x.2 d (hc x hx) hj (by omega)
    omega
  have h1 : HasKey (fmUpdate [] (m.filter (fun kv => kv.1 < j && kv.2 > d))) k :=
    fmUpdate_keys_right _ _ _ ⟨x, List.mem_filter.2 ⟨hx, by simp; omega⟩, hxk⟩
  have h2 := fmSet_keys _ j d k h1
  unfold insertIntoMap
  simp only
  split
  · exact h2
  · exact fmUpdate_keys_left _ _ _ h2

theorem insert_none_keeps (m : FMap) (j k : Nat) (hk : k < j) (h : HasKey m k) : HasKey (insertIntoMap m j none) k := by
  obtain ⟨x, hx, hxk⟩ := h
  unfold insertIntoMap
  exact fmUpdate_keys_right _ _ _ ⟨x, List.mem_filter.2 ⟨hx, by simp; omega⟩, hxk⟩

theorem get_of_haskey (L : List Nat) (m : FMap) (k : Nat) (hc : Consistent L m) (h : HasKey m k) : m.get? k = L[k]? := by
  obtain ⟨x, hx, hxk⟩ := h
  unfold FMap.get?
  cases hf : m.find? (fun kv => decide (kv.1 = k)) with
  | none =>
    have := List.find?_eq_none.1 hf x hx
    simp [hxk] at this
  | some y =>
    have hy := List.mem_of_find?_eq_some hf
    have hyk : y.1 = k := by simpa using List.find?_some hf
    simp only [Option.map_some]
    rw [← hyk]
    exact (hc y hy).symm

/-- the controller's answer for position `i` keeps a consistent view consistent -/
theorem consistent_ctlReply (L : List Nat) (s : FLog) (i : Nat) (hc : Consistent L s.map) (hd : Desc L) :
    Consistent L (processMsg s (ctlReply L i)).map := by
  unfold processMsg ctlReply
  simp only
  cases hi : L[i]? with
  | none => exact consistent_null_partial L s.map i hc
  | some d =>
    simp only
    split
    · exact hc
    · exact consistent_reply_partial L s.map i d hc hd hi

theorem ctlReply_keeps (L : List Nat) (s : FLog) (i k : Nat) (hc : Consistent L s.map) (hd : Desc L) (hk : k < i)
    (h : HasKey s.map k) : HasKey (processMsg s (ctlReply L i)).map k := by
  unfold processMsg ctlReply
  simp only
  cases hi : L[i]? with
  | none => exact insert_none_keeps s.map i k hk h
  | some d =>
    simp only
    split
    · exact h
    · exact insert_some_keeps L s.map i d k hc hd hi hk h

theorem ctlReply_has_self (L : List Nat) (s : FLog) (i d : Nat) (hi : L[i]? = some d) :
    HasKey (processMsg s (ctlReply L i)).map i := by
  unfold processMsg ctlReply
  simp only [hi]
  split
  · rename_i hg
    unfold FMap.get? at hg
    cases hf : s.map.find? (fun kv => decide (kv.1 = i)) with
    | none => simp [hf] at hg
    | some y => exact ⟨y, List.mem_of_find?_eq_some hf, by simpa using List.find?_some hf⟩
  · exact insert_some_has_self s.map i d

/-- the read-through loop: from a view that is consistent with the controller's log `L`, after asking
    for positions `i, i+1, … ` (`n` requests at most, ending at the first empty position) the view is
    still consistent and holds every position of `L` from `lo` up to `i + n` -/
theorem readLoop_spec (L : List Nat) (hd : Desc L) (lo : Nat) : ∀ (n i : Nat) (s : FLog), lo ≤ i → Consistent L s.map →
    (∀ k, lo ≤ k → k < i → k < L.length → HasKey s.map k) →
    Consistent L (readLoop L n i s).map ∧
      ∀ k, lo ≤ k → k < i + n → k < L.length → HasKey (readLoop L n i s).map k := by
  intro n
  induction n with
  | zero =>
    intro i s _ hc hk
    exact ⟨hc, fun k h1 h2 h3 => hk k h1 (by omega) h3⟩
  | succ n ih =>
    intro i s hlo hc hk
    unfold readLoop
    simp only
    have hc' := consistent_ctlReply L s i hc hd
    cases hi : L[i]? with
    | none =>
      simp only [if_true]
      refine ⟨hc', fun k h1 _ h3 => ?_⟩
      have hlen : L.length ≤ i := by
        rcases Nat.lt_or_ge i L.length with h | h
        · rw [List.getElem?_eq_getElem h] at hi; cases hi
        · exact h
      exact ctlReply_keeps L s i k hc hd (by omega) (hk k h1 (by omega) h3)
    | some d =>
      simp only [if_false, reduceCtorEq]
      have := ih (i + 1) (processMsg s (ctlReply L i)) (by omega) hc' (by
        intro k h1 h2 h3
        rcases Nat.lt_or_ge k i with h | h
        · exact ctlReply_keeps L s i k hc hd h (hk k h1 h h3)
        · have : k = i := by omega
          subst this
          exact ctlReply_has_self L s k d hi)
      refine ⟨this.1, fun k h1 h2 h3 => this.2 k h1 (by omega) h3⟩

/-- **after a complete read-through the view equals the controller's log over the range read**: for
    every controller log `L` (newest first, of any depth), every view consistent with it (the empty
    view of a fresh start in particular), every `start` and `limit`: each position
    `start ≤ k < min (start + limit) 64` that the controller has reads back the controller's entry -/
theorem readthrough_exact_partial (L : List Nat) (s : FLog) (start limit : Nat) (hd : Desc L) (hc : Consistent L s.map)
    (k : Nat) (h1 : start ≤ k) (h2 : k < min (start + limit) logDepth) (h3 : k < L.length) :
    (getFaultlog L s start limit).map.get? k = L[k]? ∧ Consistent L (getFaultlog L s start limit).map := by
  unfold getFaultlog
  have := readLoop_spec L hd start (min (start + limit) logDepth - start) start s (Nat.le_refl _) hc
    (fun k a b _ => by omega)
  exact ⟨get_of_haskey L _ k this.1 (this.2 k h1 (by omega) h3), this.1⟩

/-- a fresh view is consistent with any log -/
theorem empty_consistent (L : List Nat) : Consistent L FLog.empty.map := by
  intro x hx; cases hx

/-- non-vacuity, and the last position: a full 64-deep log read through from the top with limit 64
    gives all 64 positions, 0x3F included -/
example : (getFaultlog ((List.range 64).reverse.map (· + 1)) FLog.empty 0 64).map.get? 63 = some 1 ∧
    (getFaultlog ((List.range 64).reverse.map (· + 1)) FLog.empty 0 64).map.length = 64 := by decide +kernel

/-! ### the two recorded findings, as theorems about the model -/

/-- after two lost announcements, replies for idx 2 and 3 leave one entry at two positions -/
theorem duplicate_witness :
    (processAll FLog.empty [⟨0, some 1⟩, ⟨0, some 2⟩, ⟨0, some 3⟩, ⟨2, some 3⟩, ⟨3, some 2⟩]).map
      = [(2, 3), (3, 2), (4, 2), (5, 1)] := by decide

/-- an announcement while the top of the log is unknown does not push the known entry down -/
theorem announce_top_unknown_witness :
    (processAll FLog.empty [⟨2, some 11⟩, ⟨0, some 20⟩]).map = [(0, 20), (2, 11)] := by decide

end Ramses.C19
