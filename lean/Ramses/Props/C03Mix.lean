/-
  C03 (continuation) — set_mix_valve_params: the five parameters decode back, for every in-range
  tuple (0-99, 0-50, 0-240, 0-99, and any byte for boolean_cc) and every zone index.
-/
import Ramses.Props.C03Time
import Ramses.Props.C05
set_option linter.unusedSimpArgs false
namespace Ramses.C03Mix
open Ramses

def mixNames : List (String × String) :=
  [("20", "unknown_20"), ("21", "unknown_21"), ("C8", "max_flow_setpoint"), ("C9", "min_flow_setpoint"),
   ("CA", "valve_run_time"), ("CB", "pump_run_time"), ("CC", "boolean_cc")]

/-- one `<id>01<value>` triple decodes to its name and value -/
theorem p1030Elem_ok (idc : List Char) (name : String) (v : Nat) (hv : v < 256) (hid : idc.length = 2)
    (hlk : lookupS mixNames idc = some name) :
    p1030Elem (idc ++ "01".toList ++ fmtHex 2 v) = .ok (name, jNat v) := by
  have hl : (fmtHex 2 v).length = 2 := fmtHex_length 2 v (by decide) (by simpa using hv)
  have hof : ofHex (fmtHex 2 v) = some v := ofHex_fmtHex 2 v (by decide) (by simpa using hv)
  obtain ⟨a, b, hab⟩ := len2 _ hid
  obtain ⟨x, y, hxy⟩ := len2 _ hl
  rw [hxy] at hof
  subst hab
  rw [hxy]
  unfold p1030Elem
  have e1 : slice ([a, b] ++ "01".toList ++ [x, y]) 2 4 = s "01" := rfl
  have e2 : ([a, b] ++ "01".toList ++ [x, y]).take 2 = [a, b] := rfl
  have e3 : ([a, b] ++ "01".toList ++ [x, y]).drop 4 = [x, y] := rfl
  rw [e1, e2, e3]
  unfold mixNames at hlk
  simp only [pyAssert, hlk, pyInt16, hof, bind, Except.bind, pure, Except.pure, decide_true, if_true]

/-- **W|1030 round trip**: every in-range parameter tuple decodes to itself -/
theorem setMixValveParams_roundtrip (ctl : List Char) (idx : IdxArg) (a b v pr cc : Int) (f : Frame)
    (hcc : 0 ≤ cc ∧ cc ≤ 255) (h : setMixValveParams ctl idx a b v pr cc = .ok f) :
    f.verb = vW ∧ f.code = "1030".toList ∧
    p1030 f = .ok (.dict [("max_flow_setpoint", jNat a.toNat), ("min_flow_setpoint", jNat b.toNat), ("valve_run_time", jNat v.toNat),
      ("pump_run_time", jNat pr.toNat), ("boolean_cc", jNat cc.toNat)]) := by
  unfold setMixValveParams at h
  simp only [bind, Except.bind, pure, Except.pure, throw, throwThe, MonadExceptOf.throw] at h
  cases hi : checkIdx idx with
  | error e => simp [hi] at h
  | ok i =>
    simp only [hi] at h
    obtain ⟨n, hn, hr⟩ := C03.checkIdx_sound idx i hi
    have hil : i.length = 2 := by rw [hn]; exact fmtHex_length 2 n (by decide) (by rcases hr with h|h|h|h <;> omega)
    by_cases ha : (0 ≤ a ∧ a ≤ 99)
    · by_cases hb : (0 ≤ b ∧ b ≤ 50)
      · by_cases hvv : (0 ≤ v ∧ v ≤ 240)
        · by_cases hp : (0 ≤ pr ∧ pr ≤ 99)
          · simp only [ha, hb, hvv, hp, not_true_eq_false, if_false] at h
            have fa := C03Time.fmtX_byte' a ha.1 (by omega)
            have fb := C03Time.fmtX_byte' b hb.1 (by omega)
            have fv := C03Time.fmtX_byte' v hvv.1 (by omega)
            have fp := C03Time.fmtX_byte' pr hp.1 (by omega)
            have fc := C03Time.fmtX_byte' cc hcc.1 hcc.2
            rw [fa.1, fb.1, fv.1, fp.1, fc.1] at h
            have hplen : (i ++ "C801".toList ++ fmtHex 2 a.toNat ++ "C901".toList ++ fmtHex 2 b.toNat ++ "CA01".toList ++
                fmtHex 2 v.toNat ++ "CB01".toList ++ fmtHex 2 pr.toNat ++ "CC01".toList ++ fmtHex 2 cc.toNat).length = 32 := by
              simp [hil, fa.2, fb.2, fv.2, fp.2, fc.2]
            have hf := C03.fromAttrsDest_fields vW ctl "1030".toList _ f rfl rfl (by rw [hplen]; decide) h
            refine ⟨hf.1, hf.2.1, ?_⟩
            unfold p1030
            have hbl : f.blen = 16 := by unfold Frame.blen; rw [hf.2.2.1, hplen]
            simp only [hbl, pyAssert, bind, Except.bind, pure, Except.pure, decide_true, Bool.or_true, if_true]
            rw [hf.2.2.1]
            -- the five triples
            let es : List (List Char) := ["C8".toList ++ "01".toList ++ fmtHex 2 a.toNat, "C9".toList ++ "01".toList ++ fmtHex 2 b.toNat,
              "CA".toList ++ "01".toList ++ fmtHex 2 v.toNat, "CB".toList ++ "01".toList ++ fmtHex 2 pr.toNat,
              "CC".toList ++ "01".toList ++ fmtHex 2 cc.toNat]
            have hdrop : (i ++ "C801".toList ++ fmtHex 2 a.toNat ++ "C901".toList ++ fmtHex 2 b.toNat ++ "CA01".toList ++
                fmtHex 2 v.toNat ++ "CB01".toList ++ fmtHex 2 pr.toNat ++ "CC01".toList ++ fmtHex 2 cc.toNat).drop 2 = es.flatten := by
              have : (i ++ "C801".toList ++ fmtHex 2 a.toNat ++ "C901".toList ++ fmtHex 2 b.toNat ++ "CA01".toList ++
                fmtHex 2 v.toNat ++ "CB01".toList ++ fmtHex 2 pr.toNat ++ "CC01".toList ++ fmtHex 2 cc.toNat) = i ++ es.flatten := by
                simp [es]
              rw [this]; exact List.drop_left' hil
            rw [hdrop, C05.chunks_flatten 6 (by decide) es (by
              intro e he
              simp only [es, List.mem_cons, List.not_mem_nil, or_false] at he
              rcases he with h | h | h | h | h <;> subst h <;> simp [fa.2, fb.2, fv.2, fp.2, fc.2])]
            simp only [es, mapM']
            rw [p1030Elem_ok "C8".toList "max_flow_setpoint" a.toNat (by omega) rfl rfl,
                p1030Elem_ok "C9".toList "min_flow_setpoint" b.toNat (by omega) rfl rfl,
                p1030Elem_ok "CA".toList "valve_run_time" v.toNat (by omega) rfl rfl,
                p1030Elem_ok "CB".toList "pump_run_time" pr.toNat (by omega) rfl rfl,
                p1030Elem_ok "CC".toList "boolean_cc" cc.toNat (by omega) rfl rfl]
            rfl
          · simp [ha, hb, hvv, hp] at h
        · simp [ha, hb, hvv] at h
      · simp [ha, hb] at h
    · simp [ha] at h

end Ramses.C03Mix
