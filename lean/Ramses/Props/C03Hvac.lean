/-
  C03 (continuation) — the faked HVAC sensors' constructors against their own decoders:
  `put_outdoor_temp` (I|1290), `put_co2_level` (I|1298), `put_indoor_humidity` (I|12A0).
  For every value on the wire grid that is not a sentinel word the payload built decodes, through
  the library's own parser of that code, to the value passed in.  (The sentinel words - 7FFF for all
  three, 31FF for temperatures - are the library's "not available": a temperature of 127.99 or
  327.67 reads back as unknown; that is the wire format, see C04.temp_sentinels.)
-/
import Ramses.Props.C04
import Ramses.Props.C05Hvac
import Ramses.Model.Builders
namespace Ramses.C03H
open Ramses Ramses.C04 Ramses.C05H

/-- the first two of the four hex digits of a 16-bit word are the hex of its high byte -/
theorem take2_word (w : Nat) (hw : w < 65536) : (fmtHex 4 w).take 2 = fmtHex 2 (w / 256) := by
  rw [fmtHex_eq 4 w (by decide) (by simpa using hw), fmtHex_eq 2 (w / 256) (by decide) (by omega)]
  simp only [toHexW, List.nil_append, List.append_assoc, List.cons_append]
  have e : w / 16 / 16 = w / 256 := by omega
  have e2 : w / 16 / 16 / 16 = w / 256 / 16 := by omega
  simp [e, e2]

theorem hi_of_word (w : Nat) (hw : w < 65536) : pyInt16 ((fmtHex 4 w).take 2) = .ok (w / 256) := by
  unfold pyInt16
  rw [take2_word w hw, ofHex_fmtHex 2 (w / 256) (by decide) (by omega)]

/-- the word of k as a natural number -/
def wnat (k : Int) : Nat := if k ≥ 0 then k.toNat else (k + 2 ^ 16).toNat

theorem word_eq (k : Int) : word k = fmtHex 4 (wnat k) := rfl

/-- **put_outdoor_temp / parser_1290**: every HVAC temperature on the grid (−272.99 … 327.66, the two
    sentinel words apart) is encoded as its word and that word decodes to it -/
theorem outdoorTemp_roundtrip (name : String) (k : Int) (h1 : -27300 < k) (h2 : k ≤ 32767) (hs1 : k ≠ 12799) (hs2 : k ≠ 32767) :
    hexFromTemp (tempOfCenti k) = .ok (word k) ∧
    hvacTemp name (word k) = .ok [(name, jsonOfTemp (tempOfCenti k))] := by
  refine ⟨temp_encode k (by omega) h2, ?_⟩
  have hw : wnat k < 65536 := by unfold wnat; split <;> omega
  have hlen : (word k).length = 4 := fmtHex_length 4 _ (by decide) (by split <;> omega)
  have e1 : word k ≠ s "7FFF" := word_ne k (by omega) h2 0x7FFF (by decide) (by split <;> omega)
  have e2 : word k ≠ s "31FF" := word_ne k (by omega) h2 0x31FF (by decide) (by split <;> omega)
  have hv : pyInt16 (word k) = .ok (wnat k) := by
    unfold pyInt16
    rw [word_eq, ofHex_fmtHex 4 _ (by decide) (by simpa using hw)]
  have hhi : pyInt16 ((word k).take 2) = .ok (wnat k / 256) := by rw [word_eq]; exact hi_of_word _ hw
  have h8 : ¬ (wnat k / 256 / 16 = 8) := by unfold wnat; split <;> omega
  unfold hvacTemp
  simp only [hlen, ne_eq, not_true_eq_false, if_false, e1, e2, decide_false, Bool.or_self, Bool.false_eq_true,
    hhi, bind, Except.bind, h8, hv]
  by_cases hk : k ≥ 0
  · have hlt : wnat k < 2 ^ 15 := by unfold wnat; simp only [hk, if_true]; omega
    have hkk : ((wnat k : Nat) : Int) = k := by unfold wnat; simp only [hk, if_true]; omega
    simp only [hlt, if_true, hkk]
    rw [if_neg (by omega)]
    rfl
  · have hlt : ¬ (wnat k < 2 ^ 15) := by unfold wnat; simp only [hk, if_false]; omega
    have hkk : ((wnat k : Nat) : Int) - 2 ^ 16 = k := by unfold wnat; simp only [hk, if_false]; omega
    simp only [hlt, if_false, hkk]
    rw [if_neg (by omega)]
    rfl

/-- the encoder side, by complete evaluation of the range a CO2 sensor reports (0 … 8191 ppm) -/
def co2EncOk (n : Nat) : Bool := hexFromDouble (some ⟨n, 0⟩) 1 == .ok (fmtHex 4 n)

theorem co2_enc_lo : allIn 12 0 co2EncOk = true := by decide +kernel
theorem co2_enc_hi : allIn 12 4096 co2EncOk = true := by decide +kernel

/-- **put_co2_level / parser_1298**: every whole ppm value up to 8191 is written as its word, and every word below 7FFF is read
    back as its value -/
theorem co2_roundtrip (n : Nat) (h : n < 8192) :
    hexFromDouble (some ⟨n, 0⟩) 1 = .ok (fmtHex 4 n) ∧ co2Level (fmtHex 4 n) = .ok [("co2_level", jNat n)] := by
  have hw : n < 65536 := by omega
  constructor
  · have : co2EncOk n = true := by
      by_cases hn : n < 4096
      · exact allIn_spec 12 0 _ co2_enc_lo n (by omega) (by omega)
      · exact allIn_spec 12 4096 _ co2_enc_hi n (by omega) (by omega)
    simpa [co2EncOk] using this
  · have hlen : (fmtHex 4 n).length = 4 := fmtHex_length 4 n (by decide) (by simpa using hw)
    have hne : fmtHex 4 n ≠ s "7FFF" := by
      intro he
      have := fmtHex_inj 4 n 0x7FFF (by decide) (by simpa using hw) (by decide) he
      omega
    have hv : pyInt16 (fmtHex 4 n) = .ok n := by unfold pyInt16; rw [ofHex_fmtHex 4 n (by decide) (by simpa using hw)]
    have hhi := hi_of_word n hw
    unfold co2Level
    simp only [hlen, ne_eq, not_true_eq_false, if_false, hne, hv, hhi, bind, Except.bind]
    have c : ¬ ((n / 256 / 128 % 2 = 1 || decide (n ≥ 0x8000)) = true) := by
      simp only [Bool.or_eq_true, decide_eq_true_eq, not_or]
      constructor <;> omega
    rw [if_neg c]
    rfl

/-- **put_indoor_humidity / parser_12A0**: every whole percent 0 … 100 is written as its byte, and that byte (with no
    temperature / dew point following) is read back as the same ratio -/
theorem humidity_roundtrip (name : String) (k : Nat) (hk : k ≤ 100) :
    hexFromPercent (some (divInt k 100)) false = .ok (fmtHex 2 k) ∧
    hvacHumidity name (fmtHex 2 k) [] [] = .ok [(name, .num false (divInt k 100))] := by
  have henc := (percent_enc_dec false k (by simpa using hk)).1
  refine ⟨by simpa using henc, ?_⟩
  have hlen : (fmtHex 2 k).length = 2 := fmtHex_length 2 k (by decide) (by omega)
  have hne : fmtHex 2 k ≠ s "EF" := by
    intro he
    have := fmtHex_inj 2 k 0xEF (by decide) (by omega) (by decide) he
    omega
  have hv : pyInt16 (fmtHex 2 k) = .ok k := by unfold pyInt16; rw [ofHex_fmtHex 2 k (by decide) (by omega)]
  unfold hvacHumidity
  simp only [hlen, ne_eq, not_true_eq_false, if_false, List.length_nil, hne, hv, bind, Except.bind, decide_true, decide_false,
    Bool.and_false, Bool.false_eq_true, Bool.and_self]
  have c : ¬ (k / 16 = 15) := by omega
  rw [if_neg c]
  simp [pyAssert, hk, pure, Except.pure]

/-- non-vacuity: the whole constructor, through the frame it builds and the decoder's own dispatch -/
example :
    (match putOutdoorTemp "37:111111".toList (some (true, divInt 550 100)) with
     | .ok f => (match decode f with
        | .ok (.obj d) => (match d.lookup "outdoor_temp" with | some (.num true v) => decide (v = divInt 550 100) | _ => false)
        | _ => false)
     | _ => false) = true := by decide +kernel

example :
    (match putCo2Level "37:111111".toList (some (false, divInt 801 2)) with      -- 400.5 ppm rounds to even: 400
     | .ok f => (match decode f with
        | .ok (.obj d) => (match d.lookup "co2_level" with | some (.int n) => decide (n = 400) | _ => false)
        | _ => false)
     | _ => false) = true := by decide +kernel

end Ramses.C03H
