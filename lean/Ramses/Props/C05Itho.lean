/-
  C05 (continuation) — the fourth batch of payload parsers (Model/Parsers.lean, `parserD`): the
  list-valued ones decode element by element, and every index a decoded element carries is the
  index its own bytes carry.
-/
import Ramses.Props.C05Hvac
namespace Ramses.C05I
open Ramses Ramses.C05 Ramses.C05H

/-- `[f(x) for x in xs]` that did not raise: as many results as inputs, each the result of its own input -/
theorem mapM'_elementwise {α β} (f : α → Py β) : ∀ (xs : List α) (ys : List β), mapM' f xs = .ok ys →
    ys.length = xs.length ∧ ∀ i (hx : i < xs.length) (hy : i < ys.length), f xs[i] = .ok ys[i] := by
  intro xs
  induction xs with
  | nil => intro ys h; simp [mapM'] at h; subst h; exact ⟨rfl, fun i hx => absurd hx (by simp)⟩
  | cons x r ih =>
    intro ys h
    unfold mapM' at h
    cases hx : f x with
    | error e => rw [hx] at h; cases h
    | ok y =>
      rw [hx] at h
      cases hr : mapM' f r with
      | error e => rw [hr] at h; cases h
      | ok zs =>
        rw [hr] at h
        injection h with h
        subst h
        obtain ⟨hl, he⟩ := ih zs hr
        refine ⟨by simp [hl], ?_⟩
        intro i hi hy
        cases i with
        | zero => simpa using hx
        | succ k => simpa using he k (by simpa using hi) (by simpa using hy)

/-- **22F2 decodes element by element**: one dict per 6-character element, each carrying the index
    its own element starts with and the temperature its own four characters spell -/
theorem p22F2_elementwise (f : Frame) (ds : List Dict) (h : p22F2 f = .ok (.list ds)) :
    ds.length = (chunks 6 f.payload).length ∧
    ∀ i (hc : i < (chunks 6 f.payload).length) (hd : i < ds.length),
      ∃ t, jTemp ((chunks 6 f.payload)[i].drop 2) = .ok t ∧
        ds[i] = [("hvac_idx", Json.str ((chunks 6 f.payload)[i].take 2)), ("measure", t)] ∧
        ((chunks 6 f.payload)[i].take 2 = s "00" ∨ (chunks 6 f.payload)[i].take 2 = s "01") := by
  unfold p22F2 at h
  cases hm : mapM' (fun (q : List Char) => (do
      pyAssert (q.take 2 = s "00" || q.take 2 = s "01")
      let t ← jTemp (q.drop 2)
      pure ([("hvac_idx", Json.str (q.take 2)), ("measure", t)] : Dict) : Py Dict)) (chunks 6 f.payload) with
  | error e => rw [hm] at h; cases h
  | ok ys =>
    rw [hm] at h
    simp only [Except.map] at h
    injection h with h
    injection h with h
    subst h
    obtain ⟨hl, he⟩ := mapM'_elementwise _ _ _ hm
    refine ⟨hl, ?_⟩
    intro i hc hd
    have := he i hc hd
    by_cases hb : (decide ((chunks 6 f.payload)[i].take 2 = s "00") || decide ((chunks 6 f.payload)[i].take 2 = s "01")) = true
    · simp only [bind, Except.bind, pyAssert] at this
      rw [if_pos hb] at this
      cases ht : jTemp ((chunks 6 f.payload)[i].drop 2) with
      | error e => rw [ht] at this; cases this
      | ok t =>
        rw [ht] at this
        simp only [pure, Except.pure] at this
        injection this with this
        exact ⟨t, rfl, this.symm, by simpa using hb⟩
    · simp only [bind, Except.bind, pyAssert] at this
      rw [if_neg hb] at this
      cases this

/-- **4E01**: one temperature per group announced by the frame's length byte, each the decode of its
    own four characters -/
theorem p4E01_groups (f : Frame) (d : Dict) (h : p4E01 f = .ok (.dict d)) :
    ∃ ts : List Json, d = [("temperatures", .arr ts)] ∧ ts.length = (f.blen - 2) / 2 ∧
      ∀ k (hk : k < (f.blen - 2) / 2) (ht : k < ts.length), jTemp (slice f.payload (2 + 4 * k) (6 + 4 * k)) = .ok ts[k] := by
  unfold p4E01 at h
  simp only [bind, Except.bind, pyAssert] at h
  split at h; · cases h
  split at h; · cases h
  split at h; · cases h
  split at h; · cases h
  rename_i ts hts
  simp only [pure, Except.pure] at h
  injection h with h
  injection h with h
  obtain ⟨hl, he⟩ := mapM'_elementwise _ _ _ hts
  refine ⟨ts, h.symm, by simpa using hl, ?_⟩
  intro k hk ht
  have := he k (by simpa using hk) ht
  simpa using this

/-- non-vacuity: two measurements; an eight-group Autotemp frame -/
example :
    (match p22F2 (frameFields "RP --- 32:155617 18:005904 --:------ 22F2 006 00019B010201".toList) with
     | .ok (.list [_, _]) => true
     | _ => false) = true ∧
    (match p4E01 (frameFields " I --- 02:248945 02:250708 --:------ 4E01 018 007FFF7FFF7FFF09077FFF7FFF7FFF7FFF00".toList) with
     | .ok (.dict [(_, .arr ts)]) => ts.length == 8
     | _ => false) = true := by decide +kernel

end Ramses.C05I
