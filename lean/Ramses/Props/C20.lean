/-
  C20 — binding handshakes complete under duplicates, and always end and can be retried.

  Theorems about the binding state machine of one device, for every order and number of received
  packets (any phases, repeats, echoes, third-party traffic) and every timer order.  That the two
  ends of a real handshake exchange the right frames over the air is the per-run comparison on two
  real gateways (DESIGN.md §3 C20).
-/
import Ramses.Model.Bind
namespace Ramses.C20
open Ramses.Bind

/-- the states in which a device "is binding" are exactly the six working states -/
theorem terminal_not_binding :
    S.isBinding .notBinding = false ∧ S.isBinding .failed = false ∧ S.isBinding .respBound = false ∧
    S.isBinding .suppBound = false := by decide

/-- a new attempt can start exactly when the device is not binding -/
def canStart (c : Ctx) : Bool := !c.st.isBinding

/-! ### every wait ends, with the message or a binding error; afterwards the device is not binding -/

/-- **a wait that times out ends the attempt cleanly**: the caller gets `BindingFlowFailed`, the
    device is in `DevHasFailedBinding` (not binding), and a new attempt can start -/
theorem timeout_ends_cleanly (c : Ctx) (h : c.fut = .pending) :
    (waitEnd c true).2 = some .bindingFlowFailed ∧ (waitEnd c true).1.st = .failed ∧
    canStart (waitEnd c true).1 = true := by
  simp [waitEnd, failNow, h, canStart, S.isBinding]

/-- whatever happened before, the end of a wait never surfaces `InvalidStateError`: it is the
    message or `BindingFlowFailed` (a wait only ends by timeout or with its future done) -/
theorem wait_outcome (c : Ctx) (t : Bool) (h : t = true ∨ c.fut ≠ .pending) :
    (waitEnd c t).2 = none ∨ (waitEnd c t).2 = some .bindingFlowFailed := by
  unfold waitEnd failNow
  cases hf : c.fut <;> cases t <;> simp_all

/-- if the message had arrived just before the timeout fired, the attempt still goes on -/
theorem late_message_wins (c : Ctx) (h : c.fut = .result) (t : Bool) :
    waitEnd c t = (enter c.st.next, none) := by
  unfold waitEnd failNow
  cases t <;> simp [h]

/-- the state's own timer, firing after the wait has ended one way or the other, changes nothing
    but itself (no second failure, no error) -/
theorem late_state_timer_harmless (c : Ctx) (h : c.fut ≠ .pending) :
    (stateTimer c).st = c.st ∧ (stateTimer c).fut = c.fut := by
  unfold stateTimer failNow
  split <;> simp_all

/-- and firing first, it fails the attempt exactly like the wait's own timeout -/
theorem state_timer_fails_cleanly (c : Ctx) (h : c.fut = .pending) (ht : c.timer = true) :
    (stateTimer c).st = .failed ∧ (waitEnd (stateTimer c) false).2 = some .bindingFlowFailed := by
  simp [stateTimer, failNow, h, ht, waitEnd]

/-- an attempt that ends with an exception of any kind leaves the device not binding -/
theorem abandon_not_binding (c : Ctx) : (abandon c).st.isBinding = false := by
  unfold abandon
  split
  · rfl
  · rename_i h; simpa using h

/-! ### repeats, echoes and unrelated binding traffic -/

/-- once the awaited packet has arrived (or the wait has failed) every further packet — a repeat,
    an echo, someone else's Offer — leaves the machine exactly as it is -/
theorem rcvd_after_done (c : Ctx) (ph : Phase) (e : Bool) (h : c.fut ≠ .pending) : rcvd c ph e = c := by
  unfold rcvd
  cases c.st.pktPhase <;> cases c.st.cmdPhase <;> simp_all

/-- a received packet never fails a wait and never changes the state class -/
theorem rcvd_keeps_state (c : Ctx) (ph : Phase) (e : Bool) :
    (rcvd c ph e).st = c.st ∧ ((rcvd c ph e).fut = c.fut ∨ (rcvd c ph e).fut = .result) := by
  unfold rcvd
  cases c.st.pktPhase <;> cases c.st.cmdPhase <;> simp <;> split <;> simp

def rcvdAll (c : Ctx) (rs : List (Phase × Bool)) : Ctx := rs.foldl (fun c r => rcvd c r.1 r.2) c

theorem rcvdAll_done (rs : List (Phase × Bool)) : ∀ (c : Ctx), c.fut ≠ .pending → rcvdAll c rs = c := by
  induction rs with
  | nil => intro c _; rfl
  | cons r rs ih =>
    intro c h
    simp only [rcvdAll, List.foldl_cons]
    rw [rcvd_after_done c r.1 r.2 h]
    exact ih c h

/-- **any mix of traffic that contains the awaited packet at least once completes the wait** — how
    many times it is repeated, what else is interleaved, in which order: irrelevant -/
theorem awaited_packet_completes (want : Phase) : ∀ (rs : List (Phase × Bool)) (c : Ctx),
    c.st.pktPhase = some want → c.fut = .pending → (∃ r ∈ rs, r.1 = want) →
    (rcvdAll c rs).fut = .result ∧ (rcvdAll c rs).st = c.st := by
  intro rs
  induction rs with
  | nil => intro c _ _ h; simp at h
  | cons r rs ih =>
    intro c hp hf hex
    simp only [rcvdAll, List.foldl_cons]
    by_cases hr : r.1 = want
    · have h1 : rcvd c r.1 r.2 = { c with fut := .result } := by
        unfold rcvd; simp [hp, hr, hf]
      rw [h1]
      have := rcvdAll_done rs { c with fut := .result } (by simp)
      simp only [rcvdAll] at this
      rw [this]
      exact ⟨rfl, rfl⟩
    · have h1 : rcvd c r.1 r.2 = c := by
        unfold rcvd; simp [hp, hr]
      rw [h1]
      obtain ⟨x, hx, hxw⟩ := hex
      rcases List.mem_cons.mp hx with he | hm
      · subst he; exact absurd hxw hr
      · exact ih c hp hf ⟨x, hm, hxw⟩

/-- the echo of the device's own command completes a send-only state, however often it is heard -/
theorem echo_completes (c : Ctx) (h1 : c.st.pktPhase = none) (h2 : c.st.cmdPhase ≠ none) (h3 : c.hasCmd = true)
    (h4 : c.fut = .pending) (ph : Phase) : (rcvd (rcvd c ph true) ph true).fut = .result := by
  unfold rcvd
  cases hc : c.st.cmdPhase with
  | none => exact absurd hc h2
  | some x => simp [h1, hc, h3, h4]

/-! ### whole handshakes -/

/-- respondent, with every frame heard three times, a third party's Offer and the echo of its own
    Accept mixed in: bound, and the next attempt can start -/
theorem respondent_handshake_with_repeats :
    run (enter .notBinding)
      [.enter .respWaitOffer, .rcvd .offer false, .rcvd .offer false, .rcvd .offer false, .waitEnd false,
       .sent .accept, .rcvd .offer false, .rcvd .accept true, .rcvd .confirm false, .rcvd .confirm false,
       .rcvd .confirm false, .waitEnd false, .stateTimer]
      = enter .respBound := by decide

theorem supplicant_handshake_with_addenda :
    run (enter .notBinding)
      [.enter .suppSendOfferWaitAccept, .sent .offer, .rcvd .offer true, .rcvd .accept false, .rcvd .accept false,
       .waitEnd false, .sent .confirm, .rcvd .confirm true, .waitEnd false, .enter .suppReadyAddenda,
       .sent .addenda, .rcvd .addenda true, .rcvd .addenda true, .waitEnd false]
      = enter .suppBound := by decide

/-- a respondent that hears no Offer: the attempt ends after the wait, it is not binding, the late
    state timer is harmless, and a second attempt then succeeds -/
theorem respondent_timeout_then_retry :
    let c1 := run (enter .notBinding) [.enter .respWaitOffer, .waitEnd true, .stateTimer]
    c1.st = .failed ∧ canStart c1 = true ∧
    run c1 [.enter .respWaitOffer, .rcvd .offer false, .waitEnd false, .sent .accept, .rcvd .confirm false, .waitEnd false]
      = enter .respBound := by decide

/-- the code as it stood before the repair: the timeout surfaced `InvalidStateError` and the device
    stayed binding for ever -/
theorem unfixed_timeout_witness :
    (waitEndUnfixed (enter .respWaitOffer) true).2 = some .invalidState ∧
    (waitEndUnfixed (enter .respWaitOffer) true).1.st.isBinding = true := by decide

end Ramses.C20
