/-
  C06 (continuation) — schedule fragments (0404): the stored hot water's schedule goes by index
  byte 00 on the wire, exactly like zone 00's; what keeps the two exchanges apart is the `HW`
  the header context carries for a payload of type 23.

  `ctx_0404`: the context of a 0404 frame is its zone (or HW) followed by the fragment number.
  `dhw_zone_ctx_differ` / `dhw_request_not_answered_by_zone`: a reply about a zone (any zone -
  also zone 00, whose first byte is the DHW's) never carries the header the DHW's request waits for,
  and vice versa (`zone_request_not_answered_by_dhw`).
-/
import Ramses.Props.C06
namespace Ramses.C06S
open Ramses Ramses.C06

/-- the index of a 0404 payload: HW for the stored hot water, else the zone -/
def idx0404 (p : List Char) : List Char := if slice p 2 4 = "23".toList then "HW".toList else p.take 2

theorem pktIdx_0404 (f : HCore) (h : isCode f "0404" = true) (arr : Py Bool) :
    pktIdxWith f arr = .ok (.str (idx0404 f.payload)) := by
  have hc : f.code = "0404".toList := by simpa [isCode] using h
  unfold pktIdxWith
  have n1 : isCode f "0005" = false := by simp [isCode, hc]
  have n2 : isCode f "0009" = false := by simp [isCode, hc]
  have n3 : isCode f "000C" = false := by simp [isCode, hc]
  simp only [n1, n2, n3, h, Bool.false_eq_true, if_false, Bool.false_and, if_true, idx0404]

/-- the context of a 0404 frame (first or later access alike): index, then the fragment number -/
theorem ctx_0404 (f : HCore) (h : isCode f "0404" = true) (hne : f.payload ≠ []) (arr : Py Bool) :
    ctxWith f ((pktIdxWith f arr).map idxOf) = .ok (.str (idx0404 f.payload ++ slice f.payload 10 12)) := by
  have hc : f.code = "0404".toList := by simpa [isCode] using h
  have n1 : isCode f "0005" = false := by simp [isCode, hc]
  have n3 : isCode f "000C" = false := by simp [isCode, hc]
  rw [pktIdx_0404 f h arr]
  have hi : idx0404 f.payload ≠ [] := by
    unfold idx0404
    split
    · decide
    · cases hp : f.payload with
      | nil => exact absurd hp hne
      | cons a r => simp
  have : idxOf (.str (idx0404 f.payload)) = .str (idx0404 f.payload) := by
    unfold idxOf
    cases hx : idx0404 f.payload with
    | nil => exact absurd hx hi
    | cons a r => rfl
  unfold ctxWith
  simp only [n1, n3, h, Bool.false_eq_true, Bool.or_self, if_false, if_true, Except.map, this]

/-- a DHW fragment and a zone fragment never have the same context - whatever the zone (its index
    is two hex digits, never `HW`), whatever the fragment numbers -/
theorem dhw_zone_ctx_differ (f g : HCore) (hf : isCode f "0404" = true) (hg : isCode g "0404" = true)
    (hfd : slice f.payload 2 4 = "23".toList) (hgz : slice g.payload 2 4 ≠ "23".toList)
    (hgh : g.payload.head? ≠ some 'H') (hgne : g.payload ≠ []) (a b : Py Bool) :
    ctxWith f ((pktIdxWith f a).map idxOf) ≠ ctxWith g ((pktIdxWith g b).map idxOf) := by
  have hfne : f.payload ≠ [] := by
    intro e; rw [e] at hfd; simp [slice] at hfd
  rw [ctx_0404 f hf hfne a, ctx_0404 g hg hgne b]
  intro e
  injection e with e
  injection e with e
  have h1 : idx0404 f.payload = "HW".toList := by unfold idx0404; rw [if_pos hfd]
  have h2 : idx0404 g.payload = g.payload.take 2 := by unfold idx0404; rw [if_neg hgz]
  rw [h1, h2] at e
  cases hp : g.payload with
  | nil => exact absurd hp hgne
  | cons c r =>
    rw [hp] at e hgh
    simp at e hgh
    exact hgh e.1.symm

/-- **the DHW's request is never answered by a zone's fragment**: an RP|0404 about a zone does not
    carry the header the request for the stored hot water's fragment waits for -/
theorem dhw_request_not_answered_by_zone (q r : Frame) (hq : isCode q.core "0404" = true) (hr : isCode r.core "0404" = true)
    (hq1 : q.verb ≠ vI) (hq2 : q.verb ≠ vRP) (hq3 : q.src ≠ q.dst)
    (lq : q.code.length = 4 ∧ q.dst.length = 9) (lr : r.code.length = 4 ∧ r.verb.length = 2 ∧ (hdrDev r).length = 9)
    (hqd : slice q.payload 2 4 = "23".toList) (hrz : slice r.payload 2 4 ≠ "23".toList)
    (hrh : r.payload.head? ≠ some 'H') (hrne : r.payload ≠ [])
    (h : List Char) (hrx : rxHeader q = .ok (some h)) : txHeader r ≠ .ok h := by
  intro htx
  have hc : q.core.code = "0404".toList := by simpa [isCode] using hq
  have hc' : r.core.code = "0404".toList := by simpa [isCode] using hr
  have nq : isCode q.core "1FC9" = false := by simp [isCode, hc]
  have nr : isCode r.core "1FC9" = false := by simp [isCode, hc']
  have key := (reply_header_sound q r nq nr hq1 hq2 hq3 lq lr h hrx htx).2.2.2
  have hqne : q.core.payload ≠ [] := by
    intro e
    have : q.payload = [] := e
    rw [this] at hqd; simp [slice] at hqd
  have d := dhw_zone_ctx_differ q.core r.core hq hr hqd hrz hrh hrne (.ok (hasArrayRaw q.core)) (hasArrayFirst r.core)
  unfold ctxFirst ctxLater at key
  rw [ctx_0404 q.core hq hqne, ctx_0404 r.core hr hrne] at key d
  simp only [ctxPart] at key
  injection key with key
  injection key with key
  exact d (by rw [key])

/-- ... and the other way round: a zone's request is never answered by the DHW's fragment -/
theorem zone_request_not_answered_by_dhw (q r : Frame) (hq : isCode q.core "0404" = true) (hr : isCode r.core "0404" = true)
    (hq1 : q.verb ≠ vI) (hq2 : q.verb ≠ vRP) (hq3 : q.src ≠ q.dst)
    (lq : q.code.length = 4 ∧ q.dst.length = 9) (lr : r.code.length = 4 ∧ r.verb.length = 2 ∧ (hdrDev r).length = 9)
    (hqz : slice q.payload 2 4 ≠ "23".toList) (hqh : q.payload.head? ≠ some 'H') (hqne : q.payload ≠ [])
    (hrd : slice r.payload 2 4 = "23".toList)
    (h : List Char) (hrx : rxHeader q = .ok (some h)) : txHeader r ≠ .ok h := by
  intro htx
  have hc : q.core.code = "0404".toList := by simpa [isCode] using hq
  have hc' : r.core.code = "0404".toList := by simpa [isCode] using hr
  have nq : isCode q.core "1FC9" = false := by simp [isCode, hc]
  have nr : isCode r.core "1FC9" = false := by simp [isCode, hc']
  have key := (reply_header_sound q r nq nr hq1 hq2 hq3 lq lr h hrx htx).2.2.2
  have hrne : r.core.payload ≠ [] := by
    intro e
    have : r.payload = [] := e
    rw [this] at hrd; simp [slice] at hrd
  have d := dhw_zone_ctx_differ r.core q.core hr hq hrd hqz hqh hqne (hasArrayFirst r.core) (.ok (hasArrayRaw q.core))
  unfold ctxFirst ctxLater at key
  rw [ctx_0404 q.core hq hqne, ctx_0404 r.core hr hrne] at key d
  simp only [ctxPart] at key
  injection key with key
  injection key with key
  exact d (by rw [key])

/-- non-vacuity: the request for the first fragment of the stored hot water's schedule, zone 00's
    first fragment, and the hot water's own: the former does not carry the awaited header, the latter does -/
example :
    let q := frameFields "RQ --- 18:000730 01:145038 --:------ 0404 007 00230008000100".toList
    let z := frameFields "RP --- 01:145038 18:006402 --:------ 0404 012 0020000805010168816B00CD".toList
    let d := frameFields "RP --- 01:145038 18:006402 --:------ 0404 012 0023000805010168816B00CD".toList
    rxHeader q = .ok (some "0404|RP|01:145038|HW01".toList) ∧ txHeader z = .ok "0404|RP|01:145038|0001".toList ∧
    txHeader d = .ok "0404|RP|01:145038|HW01".toList ∧
    slice q.payload 2 4 = "23".toList ∧ slice z.payload 2 4 ≠ "23".toList ∧ z.payload.head? ≠ some 'H' := by decide

end Ramses.C06S
