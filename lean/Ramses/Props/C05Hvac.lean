/-
  C05 (continuation) — value ranges of the third batch of payload parsers (Model/Parsers.lean,
  `parserC`): "all ratios are within 0..1 and temperatures within the physical wire range", for every
  payload text (unbounded strings: whatever the helpers accept).
-/
import Ramses.Props.C05
namespace Ramses.C05H
open Ramses Ramses.C05

/-- `hex_to_percent` (either resolution): `None` or a ratio in 0..1 -/
theorem hexToPercent_unit (v : List Char) (hi : Bool) (x : Dy) (h : hexToPercent v hi = .ok (some x)) :
    x.eqv ⟨1, 0⟩ = true ∨ x.ltFrac 1 1 = true := by
  unfold hexToPercent at h
  split at h; · cases h
  split at h; · cases h
  split at h; · cases h
  split at h; · cases h
  dsimp only at h
  generalize divInt _ _ = r at h
  by_cases hr : r.ltFrac 1 1 = true ∨ r.eqv ⟨1, 0⟩ = true
  · rw [if_pos hr] at h
    injection h with h; injection h with h
    subst h
    rcases hr with hr | hr
    · exact Or.inr hr
    · exact Or.inl hr
  · rw [if_neg hr] at h; cases h

/-- `_faulted_sensor`: one entry, `<name>_fault`, a text -/
theorem faultedSensor_shape (name : String) (v : List Char) (d : Dict) (h : faultedSensor name v = .ok d) :
    ∃ t, d = [(name ++ "_fault", .str t)] := by
  unfold faultedSensor pyInt16 at h
  cases hn : ofHex (v.take 2) with
  | none => simp [hn, bind, Except.bind] at h
  | some n =>
    simp only [hn, bind, Except.bind, pure, Except.pure] at h
    injection h with h
    exact ⟨_, h.symm⟩

/-- an HVAC temperature (`_parse_hvac_temp`: outdoor, supply, exhaust, indoor) is unknown, a sensor
    fault, or `k/100` with −273 < k/100 ≤ 327.67 -/
theorem hvacTemp_range (name : String) (v : List Char) (d : Dict) (h : hvacTemp name v = .ok d) :
    d = [(name, .null)] ∨ (∃ t, d = [(name ++ "_fault", .str t)]) ∨
    ∃ k : Int, -27300 < k ∧ k ≤ 32767 ∧ d = [(name, jsonOfTemp (tempOfCenti k))] := by
  unfold hvacTemp at h
  split at h; · cases h
  rename_i hlen
  split at h
  · injection h with h; exact Or.inl h.symm
  · cases h1 : pyInt16 (v.take 2) with
    | error e => simp [h1, bind, Except.bind] at h
    | ok hi =>
      simp only [h1, bind, Except.bind] at h
      by_cases h8 : hi / 16 = 8
      · rw [if_pos h8] at h
        exact Or.inr (Or.inl (faultedSensor_shape name v d h))
      · rw [if_neg h8] at h
        cases h2 : pyInt16 v with
        | error e => simp [h2] at h
        | ok n =>
          simp only [h2] at h
          have hn16 : n < 2 ^ 16 := by
            unfold pyInt16 at h2
            cases hn : ofHex v with
            | none => simp [hn] at h2
            | some m =>
              simp only [hn] at h2
              injection h2 with h2
              subst h2
              have := ofHex_lt v m hn
              have hl : v.length = 4 := by simpa using hlen
              rw [hl] at this
              simpa using this
          by_cases hlt : n < 2 ^ 15
          · simp only [hlt, if_true] at h
            by_cases hk : (n : Int) ≤ -27300
            · omega
            · rw [if_neg hk] at h
              simp only [pure, Except.pure] at h
              injection h with h
              exact Or.inr (Or.inr ⟨n, by omega, by omega, h.symm⟩)
          · simp only [hlt, if_false] at h
            by_cases hk : (n : Int) - 2 ^ 16 ≤ -27300
            · rw [if_pos hk] at h
              exact Or.inr (Or.inl (faultedSensor_shape name v d h))
            · rw [if_neg hk] at h
              simp only [pure, Except.pure] at h
              injection h with h
              exact Or.inr (Or.inr ⟨(n : Int) - 2 ^ 16, by omega, by omega, h.symm⟩)

/-- a CO2 level is unknown, a sensor fault, or an integer below 32768 ppm -/
theorem co2Level_range (v : List Char) (d : Dict) (h : co2Level v = .ok d) :
    d = [("co2_level", .null)] ∨ (∃ t, d = [("co2_level" ++ "_fault", .str t)]) ∨
    ∃ n : Nat, n < 0x8000 ∧ d = [("co2_level", jNat n)] := by
  unfold co2Level at h
  split at h; · cases h
  split at h
  · injection h with h; exact Or.inl h.symm
  · cases h1 : pyInt16 v with
    | error e => simp [h1, bind, Except.bind] at h
    | ok n =>
      simp only [h1, bind, Except.bind] at h
      cases h2 : pyInt16 (v.take 2) with
      | error e => simp [h2] at h
      | ok hi =>
        simp only [h2] at h
        split at h
        · exact Or.inr (Or.inl (faultedSensor_shape "co2_level" v d h))
        · rename_i hc
          simp only [pure, Except.pure] at h
          injection h with h
          refine Or.inr (Or.inr ⟨n, ?_, h.symm⟩)
          simp only [Bool.or_eq_true, decide_eq_true_eq, not_or, Nat.not_le] at hc
          exact hc.2

/-- all 101 / 201 grid values: the floats n/100 (n ≤ 100) and n/200 (n ≤ 200) are ≤ 1 -/
theorem ratio100 (n : Nat) (h : n ≤ 100) : (divInt n 100).leFrac 1 1 = true := by
  have hall : allIn 7 0 (fun k => decide (k > 100) || (divInt k 100).leFrac 1 1) = true := by decide +kernel
  have := allIn_spec 7 0 _ hall n (by omega) (by omega)
  simp only [Bool.or_eq_true, decide_eq_true_eq] at this
  rcases this with h' | h'
  · omega
  · exact h'

theorem ratio200 (n : Nat) (h : n ≤ 200) : (divInt n 200).leFrac 1 1 = true := by
  have hall : allIn 8 0 (fun k => decide (k > 200) || (divInt k 200).leFrac 1 1) = true := by decide +kernel
  have := allIn_spec 8 0 _ hall n (by omega) (by omega)
  simp only [Bool.or_eq_true, decide_eq_true_eq] at this
  rcases this with h' | h'
  · omega
  · exact h'

theorem dictSet_mem_other (d : Dict) (k : String) (j : Json) (e : String × Json) (he : e ∈ d) (hk : e.1 ≠ k) :
    e ∈ dictSet d k j := by
  unfold dictSet
  split
  · exact List.mem_map.mpr ⟨e, he, by simp [hk]⟩
  · exact List.mem_append_left _ he

/-- a relative humidity (`_parse_hvac_humidity`) is unknown, a sensor fault, or a ratio in 0..1
    (next to the optional temperature / dew point) -/
theorem hvacHumidity_ratio (name : String) (value temp dew : List Char) (d : Dict)
    (hn1 : name ≠ "temperature") (hn2 : name ≠ "dewpoint_temp")
    (h : hvacHumidity name value temp dew = .ok d) :
    d = [(name, .null)] ∨ (∃ t, d = [(name ++ "_fault", .str t)]) ∨
    ∃ x : Dy, x.leFrac 1 1 = true ∧ (name, Json.num false x) ∈ d := by
  unfold hvacHumidity at h
  split at h; · cases h
  split at h; · cases h
  split at h; · cases h
  split at h
  · injection h with h; exact Or.inl h.symm
  · cases h1 : pyInt16 value with
    | error e => simp [h1, bind, Except.bind] at h
    | ok n =>
      simp only [h1, bind, Except.bind] at h
      split at h
      · exact Or.inr (Or.inl (faultedSensor_shape name value d h))
      · by_cases hn : n ≤ 100
        · have hr := ratio100 n hn
          refine Or.inr (Or.inr ⟨divInt n 100, hr, ?_⟩)
          simp only [pyAssert, hn, decide_true, if_true] at h
          have m0 : (name, Json.num false (divInt n 100)) ∈ [(name, Json.num false (divInt n 100))] := by simp
          split at h
          · cases ht : jTemp temp with
            | error e => simp [ht] at h
            | ok t =>
              simp only [ht, pure, Except.pure] at h
              have m1 := dictSet_mem_other _ "temperature" t _ m0 hn1
              split at h
              · cases hd : jTemp dew with
                | error e => simp [hd] at h
                | ok t2 =>
                  simp only [hd] at h
                  injection h with h
                  rw [← h]
                  exact dictSet_mem_other _ "dewpoint_temp" t2 _ m1 hn2
              · injection h with h
                rw [← h]; exact m1
          · simp only [pure, Except.pure] at h
            split at h
            · cases hd : jTemp dew with
              | error e => simp [hd] at h
              | ok t2 =>
                simp only [hd] at h
                injection h with h
                rw [← h]
                exact dictSet_mem_other _ "dewpoint_temp" t2 _ m0 hn2
            · injection h with h
              rw [← h]; exact m0
        · simp [pyAssert, hn] at h

/-- an air-quality level (`parse_air_quality`) is unknown, a sensor fault, or a ratio in 0..1 with its basis -/
theorem airQuality_ratio (v : List Char) (d : Dict) (h : airQuality v = .ok d) :
    d = [("air_quality", .null)] ∨ (∃ t, d = [("air_quality" ++ "_fault", .str t)]) ∨
    ∃ (x : Dy) (b : List Char), x.leFrac 1 1 = true ∧ d = [("air_quality", .num false x), ("air_quality_basis", .str b)] := by
  unfold airQuality at h
  split at h; · cases h
  simp only [bind, Except.bind] at h
  split at h; · cases h
  split at h
  · injection h with h; exact Or.inl h.symm
  · cases h1 : pyInt16 (v.take 2) with
    | error e => simp [h1] at h
    | ok n =>
      simp only [h1] at h
      split at h
      · exact Or.inr (Or.inl (faultedSensor_shape "air_quality" v d h))
      · by_cases hn : n ≤ 200
        · simp only [pyAssert, hn, decide_true, if_true] at h
          split at h
          · cases h
          · cases h
            exact Or.inr (Or.inr ⟨_, _, ratio200 n hn, rfl⟩)
        · simp [pyAssert, hn] at h

/-- the parsers of the third batch are these helpers on the payload's fields (definitional) -/
theorem parserC_1290 (f : Frame) (h : f.code = s "1290") : parserC f = some ((hvacTemp "outdoor_temp" (f.payload.drop 2)).map .dict) := by
  unfold parserC
  simp [h, s]

/-- non-vacuity: real frames of the third batch decode through the whole `decode` (schema index merge included) -/
example :
    (match decode (frameFields " I --- 13:237335 --:------ 13:237335 3EF0 003 00C8FF".toList) with
     | .ok (.obj d) => (match d.lookup "modulation_level", d.lookup "_flags_2" with
        | some (.num false v), some (.str t) => decide (v = divInt 200 200 ∧ t = "FF".toList)
        | _, _ => false)
     | _ => false) = true := by decide +kernel

example :
    (match decode (frameFields "RP --- 10:067219 18:006402 --:------ 3EF0 006 0010000AFFFF".toList) with
     | .ok (.obj d) => (match d.lookup "modulation_level", d.lookup "flame_on", d.lookup "ch_active", d.lookup "dhw_active" with
        | some (.num false v), some (.bool fl), some (.bool ch), some (.bool dhw) => decide (v = divInt 16 100 ∧ fl = true ∧ ch = true ∧ dhw = false)
        | _, _, _, _ => false)
     | _ => false) = true := by decide +kernel

example :
    (match decode (frameFields " I --- 32:155617 --:------ 32:155617 1298 003 0001F4".toList) with
     | .ok (.obj d) => (match d.lookup "co2_level" with | some (.int n) => decide (n = 500) | _ => false)
     | _ => false) = true := by decide +kernel

example :   -- a sensor fault is reported as such, not as a number
    (match hvacTemp "outdoor_temp" "8100".toList with
     | .ok [(k, .str t)] => decide (k = "outdoor_temp_fault" ∧ t = "open_circuit".toList)
     | _ => false) = true := by decide +kernel

end Ramses.C05H
