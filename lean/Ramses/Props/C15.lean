/-
  C15 — structural consistency of the topology under `set_parent`, for arbitrary device ids,
  controllers, zone indexes, child ids and call sequences.

  That the reported schema passes the library's validator and reloads to itself is decided on the
  implementation by the per-run search (DESIGN.md §3 C15: partial).
-/
import Ramses.Model.Topo
namespace Ramses.C15
open Ramses.Topo

/-! ### helper lemmas: which fields each stage touches -/

theorem addChild_devs (t : Topo) (p : Par) (d : String) (k : Kind) (cid : String) (s : Bool) :
    (addChild t p d k cid s).1.devs = t.devs ∧ (addChild t p d k cid s).1.maxZones = t.maxZones ∧
    (addChild t p d k cid s).1.zones = t.zones := ⟨rfl, rfl, rfl⟩

theorem find_map_set (d : String) (old new : Dev) : ∀ (l : List (String × Dev)),
    (l.find? (fun e => e.1 = d)).map (·.2) = some old →
    ((l.map (fun e => if e.1 = d then (e.1, new) else e)).find? (fun e => e.1 = d)).map (·.2) = some new := by
  intro l
  induction l with
  | nil => intro h; simp at h
  | cons e es ih =>
    intro h
    simp only [List.map_cons, List.find?_cons] at h ⊢
    by_cases h1 : e.1 = d
    · simp [h1]
    · simp only [h1, if_false, decide_false] at h ⊢
      exact ih h

theorem lookupDev_setDev (t : Topo) (d : String) (old new : Dev) (h : lookupDev t d = some old) :
    lookupDev (setDev t d new) d = some new :=
  find_map_set d old new t.devs h

theorem rerr_ne_ok (r : RErr) : r.res ≠ .ok := by cases r <;> simp [RErr.res]

theorem checks_ne_ok (dev : Dev) (p : Par) (cid : Option String) (s : Bool) (r : Res)
    (h : checks dev p cid s = some r) : r ≠ .ok := by
  unfold checks at h
  split at h
  · cases h; simp
  · split at h
    · cases h; simp
    · split at h
      · cases h; simp
      · split at h
        · cases h; simp
        · cases h

/-- the shape of a successful `set_parent`: it went through every check and `_add_child` accepted -/
theorem setParent_ok_shape (t : Topo) (d : String) (req : Req) (cid : Option String) (s : Bool)
    (hok : (setParent t d req cid s).2 = .ok) :
    ∃ dev rs p t2, lookupDev t d = some dev ∧ resolve t dev.kind req cid = .ok rs ∧ rs.par = some p ∧
      ¬ (dev.parent.isSome ∧ dev.parent ≠ rs.par) ∧
      addChild (withResolved t rs) p d dev.kind (rs.cid.getD "") s = (t2, .ok) ∧
      (setParent t d req cid s).1 = setDev t2 d { dev with parent := some p, childId := rs.cid, ctl := some p.ctlOf, tcs := some (tcsPtr t2 p.ctlOf) } := by
  unfold setParent at hok ⊢
  cases hd : lookupDev t d with
  | none => simp [hd] at hok
  | some dev =>
    simp only [hd] at hok ⊢
    cases hr : resolve t dev.kind req cid with
    | error e => simp only [hr] at hok; exact absurd hok (rerr_ne_ok e)
    | ok rs =>
      simp only [hr] at hok ⊢
      by_cases hmove : (dev.parent.isSome ∧ dev.parent ≠ rs.par)
      · simp [hmove] at hok
      · simp only [hmove, if_false] at hok ⊢
        cases hp : rs.par with
        | none => simp [hp] at hok
        | some p =>
          simp only [hp] at hok ⊢
          cases hc : checks dev p rs.cid s with
          | some r => simp only [hc] at hok; exact absurd hok (checks_ne_ok dev p rs.cid s r hc)
          | none =>
            simp only [hc] at hok ⊢
            cases ha : addChild (withResolved t rs) p d dev.kind (rs.cid.getD "") s with
            | mk t2 r =>
              simp only [ha] at hok ⊢
              cases r with
              | ok =>
                refine ⟨dev, rs, p, t2, rfl, hr, hp, ?_, ha, rfl⟩
                simpa [hp] using hmove
              | _ => simp at hok

/-! ### the property theorems -/

/-- **No call can move a device to a different parent**: whenever `set_parent` succeeds, the device
    either had no parent before or has the very same parent afterwards. -/
theorem parent_never_moves (t : Topo) (d : String) (req : Req) (cid : Option String) (s : Bool)
    (hok : (setParent t d req cid s).2 = .ok) :
    parentOf t d = none ∨ parentOf (setParent t d req cid s).1 d = parentOf t d := by
  obtain ⟨dev, rs, p, t2, hd, _, hp, hmove, ha, hres⟩ := setParent_ok_shape t d req cid s hok
  rw [hres]
  have hdv := (addChild_devs (withResolved t rs) p d dev.kind (rs.cid.getD "") s).1
  rw [ha] at hdv
  have hl : lookupDev t2 d = some dev := by
    unfold lookupDev at hd ⊢; rw [hdv]; exact hd
  unfold parentOf
  rw [lookupDev_setDev t2 d dev _ hl, hd]
  simp only [Option.bind_some]
  cases hq : dev.parent with
  | none => left; rfl
  | some q =>
    right
    rw [hq, hp] at hmove
    simp only [Option.isSome_some, true_and, ne_eq, Decidable.not_not] at hmove
    exact hmove.symm

/-- ... and likewise its controller -/
theorem ctl_set_to_parents (t : Topo) (d : String) (req : Req) (cid : Option String) (s : Bool)
    (hok : (setParent t d req cid s).2 = .ok) :
    ∃ p, parentOf (setParent t d req cid s).1 d = some p ∧ ctlOfDev (setParent t d req cid s).1 d = some p.ctlOf := by
  obtain ⟨dev, rs, p, t2, hd, _, _, _, ha, hres⟩ := setParent_ok_shape t d req cid s hok
  rw [hres]
  have hdv := (addChild_devs (withResolved t rs) p d dev.kind (rs.cid.getD "") s).1
  rw [ha] at hdv
  have hl : lookupDev t2 d = some dev := by
    unfold lookupDev at hd ⊢; rw [hdv]; exact hd
  refine ⟨p, ?_, ?_⟩
  · unfold parentOf; rw [lookupDev_setDev t2 d dev _ hl]; rfl
  · unfold ctlOfDev; rw [lookupDev_setDev t2 d dev _ hl]; rfl

/-- an attempt to give a device that already has a parent another one is refused with
    `SystemSchemaInconsistent` (whatever else is wrong with the call): the inconsistency is reported -/
theorem move_is_reported (t : Topo) (d : String) (dev : Dev) (req : Req) (cid : Option String) (s : Bool)
    (rs : Resolved) (q : Par)
    (hd : lookupDev t d = some dev) (hr : resolve t dev.kind req cid = .ok rs)
    (hp : dev.parent = some q) (hne : rs.par ≠ some q) :
    (setParent t d req cid s).2 = .inconsistent := by
  unfold setParent
  simp only [hd, hr]
  have : (dev.parent.isSome ∧ dev.parent ≠ rs.par) := by
    rw [hp]; exact ⟨rfl, fun h => hne h.symm⟩
  simp [this]

/-- a refused call changes no device's parent, child id or controller -/
theorem refused_changes_no_device (t : Topo) (d : String) (req : Req) (cid : Option String) (s : Bool)
    (hbad : (setParent t d req cid s).2 ≠ .ok) : (setParent t d req cid s).1.devs = t.devs := by
  unfold setParent at hbad ⊢
  cases hd : lookupDev t d with
  | none => simp
  | some dev =>
    simp only [hd] at hbad ⊢
    cases hr : resolve t dev.kind req cid with
    | error e => simp
    | ok rs =>
      simp only [hr] at hbad ⊢
      by_cases hmove : (dev.parent.isSome ∧ dev.parent ≠ rs.par)
      · simp [hmove, withResolved]
      · simp only [hmove, if_false] at hbad ⊢
        cases hp : rs.par with
        | none => simp [withResolved]
        | some p =>
          simp only [hp] at hbad ⊢
          cases hc : checks dev p rs.cid s with
          | some r => simp [withResolved]
          | none =>
            simp only [hc] at hbad ⊢
            have hdv := (addChild_devs (withResolved t rs) p d dev.kind (rs.cid.getD "") s).1
            cases ha : addChild (withResolved t rs) p d dev.kind (rs.cid.getD "") s with
            | mk t2 r =>
              rw [ha] at hdv
              simp only [ha] at hbad ⊢
              cases r with
              | ok => simp at hbad
              | _ => simpa [withResolved] using hdv

/-- zone indexes stay below the configured maximum -/
def ZonesOk (t : Topo) : Prop := ∀ z ∈ t.zones, ∃ n, hexVal z.2 = some n ∧ n < t.maxZones

theorem resolveTcs_zones (t : Topo) (c : String) (cid : Option String) (rs : Resolved)
    (h : resolveTcs t c cid = .ok rs) (hz : ZonesOk t) :
    ∀ z ∈ rs.zones, ∃ n, hexVal z.2 = some n ∧ n < t.maxZones := by
  unfold resolveTcs at h
  split at h
  · simp only at h
    split at h
    · cases h; exact hz
    · split at h
      · cases h
      · rename_i n hn
        split at h
        · cases h
          intro z hzm
          unfold addIfAbsent at hzm
          split at hzm
          · exact hz z hzm
          · rcases List.mem_cons.mp hzm with he | hm
            · subst he; rename_i hlt _; exact ⟨n, hn, hlt⟩
            · exact hz z hm
        · cases h; exact hz
  · cases h; exact hz

theorem resolve_zones (t : Topo) (k : Kind) (req : Req) (cid : Option String) (rs : Resolved)
    (h : resolve t k req cid = .ok rs) (hz : ZonesOk t) :
    ∀ z ∈ rs.zones, ∃ n, hexVal z.2 = some n ∧ n < t.maxZones := by
  unfold resolve at h
  simp only at h
  split at h
  · exact resolveTcs_zones t _ _ rs h hz
  · exact resolveTcs_zones t _ _ rs h hz
  · cases h; exact hz
  · by_cases hc : truthy (if k = Kind.ufc then some "FF" else cid) = true
    · rw [if_pos hc] at h; cases h; exact hz
    · rw [if_neg hc] at h; cases h
  · cases h; exact hz
  · cases h; exact hz

/-- **zone indexes never reach the configured maximum**, whatever is called (a zone is only ever
    created by `resolve`, and only for `int(child_id, 16) < max_zones`) -/
theorem zonesOk_preserved (t : Topo) (d : String) (req : Req) (cid : Option String) (s : Bool) (hz : ZonesOk t) :
    ZonesOk (setParent t d req cid s).1 := by
  unfold setParent
  cases hd : lookupDev t d with
  | none => exact hz
  | some dev =>
    simp only
    cases hr : resolve t dev.kind req cid with
    | error e => exact hz
    | ok rs =>
      have hzr := resolve_zones t dev.kind req cid rs hr hz
      have h1 : ZonesOk (withResolved t rs) := by
        intro z hzm; exact hzr z hzm
      simp only
      split
      · exact h1
      · cases hp : rs.par with
        | none => exact h1
        | some p =>
          simp only
          cases hc : checks dev p rs.cid s with
          | some r => exact h1
          | none =>
            simp only
            obtain ⟨_, hm, hzz⟩ := addChild_devs (withResolved t rs) p d dev.kind (rs.cid.getD "") s
            cases ha : addChild (withResolved t rs) p d dev.kind (rs.cid.getD "") s with
            | mk t2 r =>
              rw [ha] at hm hzz
              cases r with
              | ok =>
                intro z hzm
                have : z ∈ t2.zones := by simpa [setDev] using hzm
                rw [hzz] at this
                obtain ⟨n, a, b⟩ := h1 z this
                exact ⟨n, a, by simp only [setDev]; rw [hm]; exact b⟩
              | _ =>
                intro z hzm
                simp only at hzm
                rw [hzz] at hzm
                obtain ⟨n, a, b⟩ := h1 z hzm
                exact ⟨n, a, by simp only; rw [hm]; exact b⟩

/-- a recorded finding: a controller named as the sensor of another controller's zone has its own
    `.tcs` re-pointed at that other system; a later `parent=<this controller>` then resolves to the
    other controller's system -/
theorem controller_hijack_witness :
    let t0 : Topo := ⟨12, [("01:223036", ⟨.ctl, none, none, none, some "01:223036"⟩),
                          ("04:000001", ⟨.trv, none, none, none, none⟩)], [], [], ⟨[], [], [], [], [], []⟩⟩
    let t1 := (setParent t0 "01:223036" (.ctlDev "01:145038") (some "0B") true).1
    tcsPtr t0 "01:223036" = "01:223036" ∧ tcsPtr t1 "01:223036" = "01:145038" ∧
      parentOf (setParent t1 "04:000001" (.ctlDev "01:223036") (some "01") false).1 "04:000001"
        = some (.zone "01:145038" "01") := by decide

/-- non-vacuity: a TRV is bound to zone 01 of one controller; binding it to zone 02, or to the
    other controller, is refused and reported; a second sensor for the zone is refused too -/
example :
    let t0 : Topo := ⟨12, [("04:000001", ⟨.trv, none, none, none, none⟩), ("34:000001", ⟨.thm, none, none, none, none⟩),
                          ("34:000002", ⟨.thm, none, none, none, none⟩)], [], [], ⟨[], [], [], [], [], []⟩⟩
    (runCalls t0 [⟨"04:000001", .ctlDev "01:145038", some "01", false⟩,
                  ⟨"04:000001", .ctlDev "01:145038", some "02", false⟩,
                  ⟨"04:000001", .ctlDev "01:223036", some "01", false⟩,
                  ⟨"34:000001", .ctlDev "01:145038", some "01", true⟩,
                  ⟨"34:000002", .ctlDev "01:145038", some "01", true⟩]).2
      = [.ok, .inconsistent, .inconsistent, .ok, .inconsistent] := by decide

end Ramses.C15
