import Ramses.Model.Py
import Ramses.Model.Hex
import Ramses.Model.Dbl
import Ramses.Model.Codec
import Ramses.Proofs.Sweep.CentiAll
